#!/bin/sh
# Entry point for every registered check:  run.sh <ID> <quick|thorough> | --replay <file> | --setup | --survey <ID>
# Checks run against the working tree at ${TFVERIF_REPO:-/repo} in a fresh interpreter (pure Python: nothing to build).
HERE="$(cd "$(dirname "$0")" && pwd)"
PY=/venv/bin/python
export PYTHONDONTWRITEBYTECODE=1 PYTHONHASHSEED=0 TINYFLUX_VERIF=1
export PYTHONPATH="${TFVERIF_REPO:-/repo}:$HERE:$HERE/.deps${PYTHONPATH:+:$PYTHONPATH}"
if ! "$PY" -c "import hypothesis" 2>/dev/null; then
  "$PY" -m pip install -q --no-index --find-links /opt/veriftools/wheels --target "$HERE/.deps" hypothesis >&2 || { echo "HARNESS-ERROR: cannot install hypothesis offline" >&2; exit 2; }
fi
# atheris (coverage-guided fuzzing, thorough tiers of C05 and C09): optional, installed offline next to the repository's packages
if [ "$1" = "--setup" ] || [ "$2" = "thorough" ]; then
  "$PY" -c "import atheris" 2>/dev/null || "$PY" -m pip install -q --no-index --find-links /opt/veriftools/wheels --target "$HERE/.deps" atheris >&2 || echo "note: atheris not installable; fuzz shards will be skipped" >&2
fi
if [ "$1" = "--setup" ]; then
  "$PY" -c "import hypothesis, tinyflux; print('setup ok: hypothesis', hypothesis.__version__, 'tinyflux at', tinyflux.__file__)" || exit 2
  exit 0
fi
cd "$HERE" && exec "$PY" -m tfverif.cli "$@"
