#!/venv/bin/python
"""Systematic sensitivity measurement: AST-level mutants of tinyflux/*.py that the unit tests do NOT kill are run against the
checks that cover the mutated file; survivors are listed for analysis (equivalent mutant, or a gap in a check).

usage: tools/automut.py [--files index.py,database.py] [--limit N] [--jobs 16] [--out tools/automut_results.jsonl] [--phase tests|checks|all]

Phase 1 (parallel): generate mutants, run the unit suite on each (scratch copy under /dev/shm), keep those that pass.
Phase 2 (sequential, each check uses all cores): run the mapped quick checks until one reports a violation.
Nothing is written under /repo; scratch copies are removed as soon as a mutant is done.
"""
import ast
import copy
import json
import multiprocessing
import os
import shutil
import subprocess
import sys
import tempfile
import time

HERE = os.path.dirname(os.path.abspath(__file__))
VERIF = os.path.dirname(HERE)
REPO = "/repo"
CHECKS_FOR = {
    "utils.py": ["C18", "C01"],
    "queries.py": ["C09", "C17", "C01"],
    "point.py": ["C05", "C14", "C04"],
    "index.py": ["C06", "C01", "C07", "C02", "C10"],
    "measurement.py": ["C10", "C07", "C03"],
    "storages.py": ["C04", "C16", "C12", "C13", "C15", "C05", "C07"],
    "database.py": ["C01", "C02", "C03", "C06", "C11", "C10", "C07", "C14", "C08", "C13", "C15", "C16", "C12"],
}
CMP = {ast.Lt: ast.LtE, ast.LtE: ast.Lt, ast.Gt: ast.GtE, ast.GtE: ast.Gt, ast.Eq: ast.NotEq, ast.NotEq: ast.Eq, ast.Is: ast.IsNot, ast.IsNot: ast.Is, ast.In: ast.NotIn, ast.NotIn: ast.In}


class Sites(ast.NodeVisitor):
    """Collect mutation sites as (kind, node-index, detail)."""

    def __init__(self):
        self.sites = []
        self.n = 0
        self.in_doc = False

    def generic_visit(self, node):
        node._idx = self.n
        self.n += 1
        if isinstance(node, ast.Compare):
            for i, op in enumerate(node.ops):
                if type(op) in CMP:
                    self.sites.append(("cmp", node._idx, i))
        elif isinstance(node, ast.BoolOp):
            self.sites.append(("boolop", node._idx, None))
        elif isinstance(node, ast.Constant) and not isinstance(node.value, (str, bytes)) and node.value is not None and node.value is not Ellipsis:
            if isinstance(node.value, bool):
                self.sites.append(("const", node._idx, not node.value))
            elif isinstance(node.value, int) and abs(node.value) <= 10:
                self.sites.append(("const", node._idx, node.value + 1))
                if node.value != 0:
                    self.sites.append(("const", node._idx, node.value - 1))
        elif isinstance(node, ast.If) or isinstance(node, ast.While):
            self.sites.append(("negate", node._idx, None))
        elif isinstance(node, ast.BinOp) and isinstance(node.op, (ast.Add, ast.Sub)):
            self.sites.append(("arith", node._idx, None))
        elif isinstance(node, ast.UnaryOp) and isinstance(node.op, ast.Not):
            self.sites.append(("dropnot", node._idx, None))
        for field, value in ast.iter_fields(node):
            if isinstance(value, list):
                for k, item in enumerate(value):
                    if isinstance(item, ast.AST):
                        # statement deletion (calls, augmented assignments, plain assignments to attributes, continue/break)
                        if field in ("body", "orelse", "finalbody") and len(value) > 1:
                            if (isinstance(item, ast.Expr) and isinstance(item.value, ast.Call)) or isinstance(item, (ast.AugAssign, ast.Continue, ast.Break)) or (
                                isinstance(item, ast.Assign) and any(isinstance(t, (ast.Attribute, ast.Subscript)) for t in item.targets)
                            ):
                                self.sites.append(("delete", node._idx, (field, k)))
                        self.generic_visit(item)
            elif isinstance(value, ast.AST):
                self.generic_visit(value)


def apply(tree, site):
    kind, idx, detail = site
    tree = copy.deepcopy(tree)
    counter = {"n": 0}
    done = {"ok": False, "line": None}

    def walk(node):
        my = counter["n"]
        counter["n"] += 1
        if my == idx:
            done["line"] = getattr(node, "lineno", None)
            if kind == "cmp":
                node.ops[detail] = CMP[type(node.ops[detail])]()
                done["ok"] = True
            elif kind == "boolop":
                node.op = ast.Or() if isinstance(node.op, ast.And) else ast.And()
                done["ok"] = True
            elif kind == "const":
                node.value = detail
                done["ok"] = True
            elif kind == "negate":
                node.test = ast.UnaryOp(op=ast.Not(), operand=node.test)
                done["ok"] = True
            elif kind == "arith":
                node.op = ast.Sub() if isinstance(node.op, ast.Add) else ast.Add()
                done["ok"] = True
            elif kind == "dropnot":
                return node.operand, True
            elif kind == "delete":
                field, k = detail
                lst = getattr(node, field)
                done["line"] = getattr(lst[k], "lineno", None)
                lst[k] = ast.Pass()
                done["ok"] = True
        for field, value in ast.iter_fields(node):
            if isinstance(value, list):
                for k, item in enumerate(value):
                    if isinstance(item, ast.AST):
                        r = walk(item)
                        if isinstance(r, tuple):
                            value[k] = r[0]
                            done["ok"] = True
            elif isinstance(value, ast.AST):
                r = walk(value)
                if isinstance(r, tuple):
                    setattr(node, field, r[0])
                    done["ok"] = True
        return None

    walk(tree)
    ast.fix_missing_locations(tree)
    return (ast.unparse(tree), done["line"]) if done["ok"] else (None, None)


def in_docstring_or_typing(src_line):
    return False


def gen_mutants(files):
    out = []
    for fn in files:
        path = os.path.join(REPO, "tinyflux", fn)
        src = open(path).read()
        tree = ast.parse(src)
        s = Sites()
        s.generic_visit(tree)
        base = ast.unparse(tree)
        for site in s.sites:
            code, line = apply(tree, site)
            if code is None or code == base:
                continue
            out.append({"file": fn, "kind": site[0], "line": line, "site": [site[0], site[1], repr(site[2])], "code": code})
    return out


def scratch_with(m):
    d = tempfile.mkdtemp(prefix="tfam-", dir="/dev/shm")
    shutil.copytree(os.path.join(REPO, "tinyflux"), os.path.join(d, "tinyflux"))
    shutil.copytree(os.path.join(REPO, "tests"), os.path.join(d, "tests"))
    with open(os.path.join(d, "tinyflux", m["file"]), "w") as f:
        f.write(m["code"])
    return d


def unit_tests(m):
    d = scratch_with(m)
    try:
        r = subprocess.run(["/venv/bin/python", "-m", "pytest", "-q", "-x", "-p", "no:cacheprovider", "--timeout=120", "tests"], cwd=d, capture_output=True, text=True,
                           env=dict(os.environ, PYTHONPATH=d, PYTHONDONTWRITEBYTECODE="1"), timeout=600)
        return r.returncode == 0
    except subprocess.TimeoutExpired:
        return False
    finally:
        shutil.rmtree(d, ignore_errors=True)


def snippet(m):
    """The mutated line(s) as text, for the report."""
    orig = ast.unparse(ast.parse(open(os.path.join(REPO, "tinyflux", m["file"])).read())).splitlines()
    new = m["code"].splitlines()
    for i, (a, b) in enumerate(zip(orig, new)):
        if a != b:
            return {"unparsed_line": i + 1, "orig": a.strip()[:160], "mutant": b.strip()[:160]}
    return {"unparsed_line": None, "orig": "", "mutant": "(length differs)"}


def run_checks(m, tier="quick"):
    d = scratch_with(m)
    try:
        for c in CHECKS_FOR[m["file"]]:
            t0 = time.time()
            try:
                r = subprocess.run([os.path.join(VERIF, "run.sh"), c, tier], capture_output=True, text=True, timeout=900,
                                   env=dict(os.environ, TFVERIF_REPO=d, TFVERIF_NO_EVIDENCE="1", VERIF_SEED=os.environ.get("VERIF_SEED", "1")))
            except subprocess.TimeoutExpired:
                return {"verdict": "timeout", "check": c}
            if r.returncode == 1:
                line = [x for x in r.stderr.splitlines() if x.startswith("  ")][:1]
                return {"verdict": "killed", "check": c, "wall": round(time.time() - t0, 1), "how": (line[0].strip()[:200] if line else "")}
            if r.returncode == 2:
                return {"verdict": "harness-error", "check": c, "stderr": r.stderr[-600:]}
        return {"verdict": "SURVIVED", "checks": CHECKS_FOR[m["file"]]}
    finally:
        shutil.rmtree(d, ignore_errors=True)


def main(argv):
    files = list(CHECKS_FOR)
    limit = None
    jobs = 16
    out = os.path.join(HERE, "automut_results.jsonl")
    it = iter(argv)
    for a in it:
        if a == "--files":
            files = next(it).split(",")
        elif a == "--limit":
            limit = int(next(it))
        elif a == "--jobs":
            jobs = int(next(it))
        elif a == "--out":
            out = next(it)
    muts = gen_mutants(files)
    if limit:
        step = max(1, len(muts) // limit)
        muts = muts[::step][:limit]
    print("mutants generated:", len(muts), flush=True)
    with multiprocessing.Pool(jobs) as pool:
        passed = pool.map(unit_tests, muts, chunksize=1)
    alive = [m for m, ok in zip(muts, passed) if ok]
    print("pass the unit suite:", len(alive), "of", len(muts), flush=True)
    counts = {}
    with open(out, "a") as f:
        f.write(json.dumps({"meta": "run", "generated": len(muts), "pass_unit_tests": len(alive), "files": files, "time": time.time()}) + "\n")
        for i, m in enumerate(alive):
            res = run_checks(m)
            rec = {"file": m["file"], "kind": m["kind"], "line": m["line"], **snippet(m), **res}
            f.write(json.dumps(rec) + "\n")
            f.flush()
            counts[res["verdict"]] = counts.get(res["verdict"], 0) + 1
            print("%3d/%d %-12s L%-5s %-8s %-14s %s | %s" % (i + 1, len(alive), m["file"], m["line"], m["kind"], res["verdict"] + (":" + res.get("check", "") if res.get("check") else ""), rec["orig"][:70], rec["mutant"][:70]), flush=True)
    print("summary:", counts)


if __name__ == "__main__":
    main(sys.argv[1:])
