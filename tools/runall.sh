#!/bin/sh
# Run every registered quick check once (optionally VERIF_SEED=n), print one line each; exit 1 if any is not OK.
cd "$(dirname "$0")/.." || exit 2
rc=0
for c in C01 C02 C03 C04 C05 C06 C07 C08 C09 C10 C11 C12 C13 C14 C15 C16 C17 C18; do
  out=$(${NOEV:+env TFVERIF_NO_EVIDENCE=1} ./run.sh $c ${1:-quick} 2>&1); r=$?
  echo "$out" | grep -E "^(OK|VIOLATION|HARNESS)" | head -3 | cut -c1-200
  [ $r -ne 0 ] && { rc=1; echo "   -> exit $r"; echo "$out" | tail -5 | cut -c1-300; }
done
exit $rc
