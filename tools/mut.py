#!/venv/bin/python
"""Sensitivity testing: apply a textual mutant to a scratch copy of /repo, run checks against it.

usage: tools/mut.py [--tests] [--tier quick] [--only C01,C02] [mutant-id ...]
Mutants are in tools/mutants.py: dict id -> (properties, file, old, new[, count]).
The scratch copy lives under /dev/shm and is removed after each mutant.
Results are appended to tools/mutant_results.jsonl (development aid, not evidence).
"""
import json, os, shutil, subprocess, sys, tempfile, time

HERE = os.path.dirname(os.path.abspath(__file__))
VERIF = os.path.dirname(HERE)
sys.path.insert(0, HERE)
from mutants import MUTANTS  # noqa


def main(argv):
    run_tests = "--tests" in argv
    tier = "quick"
    only = None
    ids = []
    it = iter(a for a in argv if a != "--tests")
    for a in it:
        if a == "--tier":
            tier = next(it)
        elif a == "--only":
            only = next(it).split(",")
        else:
            ids.append(a)
    if not ids:
        ids = list(MUTANTS)
    rc_all = 0
    for mid in ids:
        props, rel, old, new = MUTANTS[mid][:4]
        count = MUTANTS[mid][4] if len(MUTANTS[mid]) > 4 else 1
        d = tempfile.mkdtemp(prefix="tfmut-", dir="/dev/shm")
        try:
            shutil.copytree("/repo/tinyflux", os.path.join(d, "tinyflux"))
            shutil.copytree("/repo/tests", os.path.join(d, "tests"))
            p = os.path.join(d, rel)
            src = open(p).read()
            if src.count(old) != count:
                print("%-28s MUTANT-STALE (%d occurrences of old text, expected %d)" % (mid, src.count(old), count))
                rc_all = 2
                continue
            open(p, "w").write(src.replace(old, new))
            tests = None
            if run_tests:
                r = subprocess.run(["/venv/bin/python", "-m", "pytest", "-q", "-x", "-p", "no:cacheprovider", "tests"], cwd=d, capture_output=True, text=True,
                                   env=dict(os.environ, PYTHONPATH=d, PYTHONDONTWRITEBYTECODE="1"))
                tests = "pass" if r.returncode == 0 else "FAIL"
            for prop in props:
                if only and prop not in only:
                    continue
                t0 = time.time()
                r = subprocess.run([os.path.join(VERIF, "run.sh"), prop, tier], capture_output=True, text=True,
                                   env=dict(os.environ, TFVERIF_REPO=d, VERIF_SEED=os.environ.get("VERIF_SEED", "1"), TFVERIF_NO_EVIDENCE="1"))
                verdict = {0: "SURVIVED", 1: "killed", 2: "HARNESS-ERROR"}.get(r.returncode, "rc=%d" % r.returncode)
                line = [l for l in r.stdout.splitlines() if l.startswith("VIOLATION")][:1]
                print("%-28s %-4s %-13s tests=%s %.1fs %s" % (mid, prop, verdict, tests, time.time() - t0, line[0][:100] if line else ""))
                if r.returncode == 2:
                    print(r.stderr[-700:])
                with open(os.path.join(HERE, "mutant_results.jsonl"), "a") as f:
                    f.write(json.dumps({"mutant": mid, "property": prop, "tier": tier, "verdict": verdict, "tests": tests, "wall": round(time.time() - t0, 1)}) + "\n")
                if r.returncode != 1:
                    rc_all = 1
        finally:
            shutil.rmtree(d, ignore_errors=True)
    return rc_all


if __name__ == "__main__":
    sys.exit(main(sys.argv[1:]))
