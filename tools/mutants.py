"""Hand-written mutants per property (DESIGN.md section 3): id -> (properties, file, old, new[, count])."""
MUTANTS = {
    # ---- C18
    "c18-eq-right": (["C18"], "tinyflux/utils.py", "    i = bisect.bisect_left(sorted_list, x)\n\n    if i != len(sorted_list) and sorted_list[i] == x:", "    i = bisect.bisect_right(sorted_list, x) - 1\n\n    if i >= 0 and i != len(sorted_list) and sorted_list[i] == x:"),
    "c18-lt-right": (["C18"], "tinyflux/utils.py", '    """Find rightmost value less than x.\n\n    Args:\n        sorted_list: The list to search.\n        x: The element to search.\n\n    Returns:\n        The index of the found element or None.\n    """\n    i = bisect.bisect_left(sorted_list, x)', '    """Find rightmost value less than x.\n\n    Args:\n        sorted_list: The list to search.\n        x: The element to search.\n\n    Returns:\n        The index of the found element or None.\n    """\n    i = bisect.bisect_right(sorted_list, x)'),
    "c18-le-gt1": (["C18"], "tinyflux/utils.py", "    i = bisect.bisect_right(sorted_list, x)\n\n    if i:\n        return i - 1", "    i = bisect.bisect_right(sorted_list, x)\n\n    if i > 1:\n        return i - 1"),
    "c18-gt-left": (["C18"], "tinyflux/utils.py", "    i = bisect.bisect_right(sorted_list, x)\n\n    if i != len(sorted_list):", "    i = bisect.bisect_left(sorted_list, x)\n\n    if i != len(sorted_list):"),
    "c18-ge-right": (["C18"], "tinyflux/utils.py", 'greater than or equal to x.\n\n    Args:\n        sorted_list: The list to search.\n        x: The element to search.\n\n    Returns:\n        The index of the found element or None.\n    """\n    i = bisect.bisect_left(sorted_list, x)', 'greater than or equal to x.\n\n    Args:\n        sorted_list: The list to search.\n        x: The element to search.\n\n    Returns:\n        The index of the found element or None.\n    """\n    i = bisect.bisect_right(sorted_list, x)'),
    # ---- C09
    "c09-or-xor": (["C09"], "tinyflux/queries.py", "return CompoundQuery(self, other, operator.or_, hashval)", "return CompoundQuery(self, other, operator.xor, hashval)", 2),
    "c09-pathfail-true": (["C09"], "tinyflux/queries.py", "        except Exception:\n            return False\n\n        return self._test(value)", "        except Exception:\n            return True\n\n        return self._test(value)"),
    "c09-cmp-no-try": (["C09"], "tinyflux/queries.py", "            try:\n                return operator(x, rhs)\n            except Exception:\n                return False", "            return operator(x, rhs)"),
    "c09-matches-search": (["C09"], "tinyflux/queries.py", "return re.match(regex, value, flags) is not None", "return re.search(regex, value, flags) is not None"),
    "c09-flags-dropped": (["C09"], "tinyflux/queries.py", "return re.search(regex, value, flags) is not None", "return re.search(regex, value) is not None"),
    "c09-noop-path": (["C09"], "tinyflux/queries.py", "            path_resolver=lambda x: x,\n            hashval=(),", "            path_resolver=lambda x: x[self._path[0]] if self._path else x,\n            hashval=(),"),
    # ---- C17
    "c17-hash-no-op": (["C17"], "tinyflux/queries.py", 'hashval=(self._point_attr, "<", self._path, rhs),', 'hashval=(self._point_attr, "<=", self._path, rhs),'),
    "c17-or-tuple": (["C17"], "tinyflux/queries.py", 'hashval = ("or", frozenset([self._hash, other._hash]))', 'hashval = ("or", (self._hash, other._hash))', 2),
    "c17-map-keeps-hash": (["C17"], "tinyflux/queries.py", "        query._hash = None\n\n        return query", "        query._hash = self._hash\n\n        return query"),
    "c17-flags-dropped": (["C17"], "tinyflux/queries.py", 'hashval=(self._point_attr, "search", self._path, regex, flags),', 'hashval=(self._point_attr, "search", self._path, regex),'),
    "c17-and-or-same-tag": (["C17"], "tinyflux/queries.py", 'hashval = ("or", frozenset([self._hash, other._hash]))', 'hashval = ("and", frozenset([self._hash, other._hash]))', 2),
    "c17-test-args-dropped": (["C17"], "tinyflux/queries.py", 'hashval=(self._point_attr, "test", self._path, func, args),', 'hashval=(self._point_attr, "test", self._path, func),'),
    "c17-attr-dropped": (["C17"], "tinyflux/queries.py", 'hashval=(self._point_attr, "exists", self._path),', 'hashval=("exists", self._path),', 2),
}
