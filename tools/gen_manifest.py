#!/venv/bin/python
"""Regenerate MANIFEST.json from the table below (so it is always valid and complete)."""
import json, os
HERE = os.path.dirname(os.path.dirname(os.path.abspath(__file__)))
props = [json.loads(l) for l in open(os.path.join(HERE, "properties.jsonl"))]
CHECKS = {
    "C18": dict(category="exploration", technique="exhaustive small-scope enumeration + Hypothesis property test against a linear-scan oracle",
                text="All sorted lists of length 0-7 over 5 values x 11 probes x 5 helpers are enumerated completely and compared with linear-scan definitions; Hypothesis adds float/int/str lists up to 200 long with probes on, one ulp beside, and far from elements. Pure functions of (list, probe), so the finite core plus random wide lists is the right level.",
                note="Trusts Python's comparison operators and the linear-scan reference; lists are sorted and NaN-free as at every call site.", design="3/C18"),
}
CHECKS["C09"] = dict(category="exploration", technique="exhaustive small-scope enumeration + Hypothesis-generated expressions against an independent reference evaluator and connective laws",
    text="Every leaf of a ~140-leaf vocabulary is evaluated on all 11 664 points of a finite universe and compared with an independent evaluator written from the docs; every depth-2 expression over the vocabulary and (thorough: all, quick: a slice of) depth-3 expressions over a 12-leaf core are checked for meaning, for the connective laws against the implementation's own operand results, and for totality; Hypothesis adds expressions up to depth 6. Queries are pure functions of (expression, point), so small-scope exhaustion plus random depth is the right level.",
    note="Trusts the reference evaluator (qast.ref), Python's re and comparison semantics; user functions come from a fixed registry of total tests and possibly-raising maps; NaN excluded.", design="3/C09")
CHECKS["C17"] = dict(category="exploration", technique="exhaustive pair enumeration + Hypothesis perturbation pairs; oracle: equality implies equal hash and equal truth table on the finite universe",
    text="All ordered pairs of independently built vocabulary leaves, of depth<=2 expressions over a 23-leaf confusable core, and of 1 200 two-level expressions over 3 leaves are compared: equal pairs must hash alike and evaluate alike on every universe point varying the slots they read; commutativity of & and | and the never-equal rule for map are enumerated; Hypothesis adds perturbed deeper pairs.",
    note="Behavioural equality is decided on the finite universe of C09 (and pool points for generated pairs), not on all conceivable points.", design="3/C17")
HIST_NOTE = "Trusts the reference model (tfverif/model.py, ~150 lines of list manipulation written from the docs) and the reference query evaluator; histories are bounded in length and drawn over small pools; user callables come from a fixed registry."
def hist(pid, text, technique="model-based differential testing: Hypothesis-generated operation histories run in lock-step on a reference model and 4 real configurations", level="exploration"):
    CHECKS[pid] = dict(category=level, technique=technique, text=text, note=HIST_NOTE, design="3/" + pid)
hist("C01", "Generated histories (all write operations, reindex, reopen, in/out-of-order and duplicate times) are applied to a reference model and in lock-step to {CSV, memory} x {auto_index on, off}; every probe compares search (sorted and unsorted), count, contains, get and select - through the database and through Measurement handles - with the model's matches, so index-served and scan-served answers are both checked against ground truth, not only against each other. Random search over histories x queries x configurations is the level the quantifier allows; failures are delta-debugged to a minimal history.")
hist("C02", "Removal-heavy generated histories on the same lock-step machinery: the returned count, the survivors as an ordered list, byte-for-byte unchanged CSV files for removals that match nothing, and every later read are compared with the reference model on all four configurations.")
hist("C03", "Update-heavy generated histories: every combination of 1-3 argument slots (static or callable, unset lists naming keys set in the same call), database / handle / update_all routes; return value and full ordered contents are compared with a reference model that implements the documented merge semantics.")
hist("C06", "Every sequence of <= 4 (quick) / <= 5 (thorough) operations over a 14-operation alphabet (incl. raising operations) is enumerated depth-first on MemoryStorage with auto_index on and off, and long generated histories run on all four configurations; after every step each index flagged valid is compared with an index rebuilt from storage on ~95 queries and every getter, and the validity rules (in-order insert keeps valid, read leaves valid) are asserted.", technique="exhaustive bounded enumeration of operation sequences with state cloning + Hypothesis-generated histories; oracle: live index == index rebuilt from storage")
hist("C07", "Getter-heavy generated histories: all exploration getters, len, iteration and all() - database and Measurement-handle versions, every kind of measurement filter and tag_keys selection - are compared with the reference model with and without a valid index on CSV and memory.")
hist("C10", "Every operation in a generated history is routed at random through the database with a measurement argument, a fresh handle, or a handle captured earlier (before drops/resets); both routes are compared with the model restricted to that measurement and the complete contents (all measurements) after every step.")
hist("C11", "Generated histories in which ~40% of the operations are made to raise at a generated position (non-Point at position k of insert_multiple, callable failing or returning an invalid value on the j-th selected point, invalid static arguments, bad reads); after each, contents must equal the model before the call, every valid index must equal a rebuild, and the history continues under the ordinary oracle.", technique="fault injection at generated positions inside Hypothesis-generated histories, model-based oracle + index-rebuild oracle", level="fault_enumeration")
CHECKS["C14"] = dict(category="exploration", technique="exhaustive enumeration of a finite fault battery (entry point x route x slot x wrong value x configuration) + Hypothesis-generated junk values; oracle: call raises ValueError/TypeError, contents unchanged, independent type predicate on everything read back",
    text="Every combination of entry point (Point construction, the four setters, insert/insert_multiple of non-Points, update/update_all static and via callable, database and Measurement-handle routes), slot, wrongly-typed value and {CSV, memory} x {auto_index on, off} is executed: the call must raise ValueError/TypeError, stored contents must be unchanged and every point read back must pass an independent type predicate; Hypothesis adds recursively generated junk judged by an independent validity predicate. The space of entry points and slots is finite, so enumeration is the right level.",
    note="The battery of wrong values is finite (about a dozen per slot) and in-place mutation of a Point's dicts is not an API path; falsy update arguments mean 'not given'.", design="3/C14")
CHECKS["C05"] = dict(category="exploration", technique="Hypothesis round-trip property test over a wide adversarial value domain (codec route and real-file route under 8 csv dialects), cross-checked by an independent CSV decoder; confusable-pair injectivity",
    text="Generated valid points (arbitrary Unicode mixed with reserved words/prefixes and CSV metacharacters, every float64 but NaN, unbounded ints, microsecond UTC times 1700-2240, both key-prefix styles) are serialized and read back through the codec and through real files (8 dialects, reopen with a fresh instance, optional rewrite in between); the result must be strictly equal (tags stay tags, fields stay fields, identical IEEE bits for floats) and an independent decoder must read the same file the same way; confusable pairs must serialize to different rows. Three format-level defects are known findings and excluded by construction.",
    note="Trusts Python's csv module (rows it cannot round-trip itself under a dialect are discarded and counted) and the independent decoder csvref; NaN excluded.", design="3/C05")
CHECKS["C08"] = dict(category="exploration", technique="Hypothesis-generated datetimes and time updates under 4 process time zones (time.tzset per worker), oracle: instants computed independently with zoneinfo and compared exactly",
    text="For each process zone in {UTC, America/Los_Angeles, Australia/Lord_Howe, Asia/Kathmandu} generated cases insert aware datetimes (any fixed offset, IANA zones) and naive datetimes concentrated in DST gaps and folds, with ties and adjacent-microsecond neighbours, years 1700-2240; apply static/callable time updates and reopen; after each stage returned times, get_timestamps (index and scan path), all six TimeQuery operators with right-hand sides in arbitrary zones and the stable time order are compared with independently computed instants on {CSV, memory} x {auto_index on, off}.",
    note="Trusts zoneinfo/tzdata and PEP 495 semantics for the expected instants; the process zone is switched with time.tzset() inside the worker (equivalent to starting the interpreter with TZ set, as datetime reads the C library's zone state at call time).", design="3/C08")
CHECKS["C04"] = dict(category="exploration", technique="Hypothesis-generated (storage configuration, history) pairs on the lock-step executor; oracle: independent CSV decoder and a fresh read-only instance on the file bytes == reference model, after every operation",
    text="Generated pairs of a CSV storage configuration (flush_on_insert x 4 encodings x 9 csv dialect option sets x auto_index, compact/default prefixes mixed) and a history of writes interleaved with early-stopping reads and reopens; after every returning operation (or after close when flush_on_insert is off) the file bytes are decoded by an independent reader and by a fresh TinyFlux and must equal the reference model, strings covering delimiters, quotes, CR/LF, non-ASCII and > 8 KiB values.",
    note="Trusts Python's csv and codecs for the independent reader; strings outside what the encoding/dialect can represent are outside the domain (discarded, counted).", design="3/C04")
CHECKS["C16"] = dict(category="exploration", technique="Hypothesis-generated insert sequences under a run-time I/O recorder (names in tinyflux.storages rebound to proxies); metamorphic oracle: same inserts on an n-row database and on an empty twin must produce identical I/O call sequences; prefix and exact-bytes oracles on the file",
    text="Each generated sequence of single/multiple, in-order/out-of-order, compact/default inserts, interleaved with early-stopping reads, runs on a database pre-populated with n rows (up to 2 000 quick / 50 000 thorough) and on an empty twin while every I/O call made by tinyflux.storages is recorded: old bytes must be a prefix of new bytes, the appended bytes must be exactly the encoded rows, no read/open/temp/copy/rename may occur, and the per-insert call sequence must be identical at both sizes.",
    note="Observes I/O at the level of file-object methods and os/shutil calls made from tinyflux.storages (an audit hook turns I/O that bypasses the proxies into a harness error).", design="3/C16")
CHECKS["C15"] = dict(category="exploration", technique="Hypothesis-generated histories per access mode with byte-for-byte file comparison and directory-listing invariants around every read / no-op / gated write",
    text="Generated histories on CSV databases opened with access_mode r+, r, a or w+ mix real writes with reads, getters, iteration, reindex, removals that match nothing, updates that change nothing and writes the mode forbids; the file must be byte-identical across each of those calls, gated writes must raise OSError, and after every operation (returned or raised) the private temp directory must be empty and the database directory must hold only the database file.",
    note="The temp directory is private per case (tempfile.tempdir); byte equality is the criterion, so a rewrite that reproduces identical bytes is not distinguishable.", design="3/C15")
NA = {}
checks = []
for p in props:
    pid = p["id"]
    if pid not in CHECKS:
        continue
    c = CHECKS[pid]
    checks.append({
        "property_id": pid,
        "quick_cmd": "./run.sh %s quick" % pid,
        "thorough_cmd": "./run.sh %s thorough" % pid,
        "evidence_file": "/verif/evidence/%s.json" % pid,
        "replay_cmd_template": "./run.sh --replay {path}",
        "engine": "tfverif",
        "level_claimed": {"category": c["category"], "text": c["text"], "design_ref": "DESIGN.md section " + c["design"]},
        "level_note": c["note"],
        "technique": c["technique"],
    })
na = [{"property_id": p["id"], "reason": NA.get(p["id"], "check not built yet in this revision of /verif (planned: DESIGN.md section 3); nothing is claimed for it")} for p in props if p["id"] not in CHECKS]
m = {
    "version": 1,
    "setup_cmd": "./run.sh --setup",
    "hooks": {"guard": "TINYFLUX_VERIF", "enable": "none needed: checks import /repo's working tree directly (pure Python) and rebind I/O names in tinyflux.storages at run time; no source hooks are committed", "baseline_off_cmd": "cd /repo && /venv/bin/python -m pytest -ra -q -p no:cacheprovider --timeout=900 --continue-on-collection-errors", "source_commits": [], "add_only": True},
    "engines": [{"name": "tfverif", "path": "/verif/tfverif", "serves_properties": [c["property_id"] for c in checks], "kind_free_text": "Hypothesis property tests / rule-based state machines, exhaustive small-scope enumeration, enumerated crash and fault points, all against independent reference models; 16-way sharded"}],
    "checks": checks,
    "notes": "Every check: exit 0 held / 1 VIOLATION line + replay file / 2 harness error or inconclusive. Deterministic in (tree, VERIF_SEED, tier). Known findings: /verif/known_findings.txt.",
    "not_applicable": na,
}
json.dump(m, open(os.path.join(HERE, "MANIFEST.json"), "w"), indent=1)
print("checks:", [c["property_id"] for c in checks], "not claimed:", len(na))
