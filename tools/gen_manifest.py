#!/venv/bin/python
"""Regenerate MANIFEST.json from the table below (so it is always valid and complete)."""
import json, os
HERE = os.path.dirname(os.path.dirname(os.path.abspath(__file__)))
props = [json.loads(l) for l in open(os.path.join(HERE, "properties.jsonl"))]
CHECKS = {
    "C18": dict(category="exploration", technique="exhaustive small-scope enumeration + Hypothesis property test against a linear-scan oracle",
                text="All sorted lists of length 0-7 over 5 values x 11 probes x 5 helpers are enumerated completely and compared with linear-scan definitions; Hypothesis adds float/int/str lists up to 200 long with probes on, one ulp beside, and far from elements. Pure functions of (list, probe), so the finite core plus random wide lists is the right level.",
                note="Trusts Python's comparison operators and the linear-scan reference; lists are sorted and NaN-free as at every call site.", design="3/C18"),
}
NA = {}
checks = []
for p in props:
    pid = p["id"]
    if pid not in CHECKS:
        continue
    c = CHECKS[pid]
    checks.append({
        "property_id": pid,
        "quick_cmd": "./run.sh %s quick" % pid,
        "thorough_cmd": "./run.sh %s thorough" % pid,
        "evidence_file": "/verif/evidence/%s.json" % pid,
        "replay_cmd_template": "./run.sh --replay {path}",
        "engine": "tfverif",
        "level_claimed": {"category": c["category"], "text": c["text"], "design_ref": "DESIGN.md section " + c["design"]},
        "level_note": c["note"],
        "technique": c["technique"],
    })
na = [{"property_id": p["id"], "reason": NA.get(p["id"], "check not built yet in this revision of /verif (planned: DESIGN.md section 3); nothing is claimed for it")} for p in props if p["id"] not in CHECKS]
m = {
    "version": 1,
    "setup_cmd": "./run.sh --setup",
    "hooks": {"guard": "TINYFLUX_VERIF", "enable": "none needed: checks import /repo's working tree directly (pure Python) and rebind I/O names in tinyflux.storages at run time; no source hooks are committed", "baseline_off_cmd": "cd /repo && /venv/bin/python -m pytest -ra -q -p no:cacheprovider --timeout=900 --continue-on-collection-errors", "source_commits": [], "add_only": True},
    "engines": [{"name": "tfverif", "path": "/verif/tfverif", "serves_properties": [c["property_id"] for c in checks], "kind_free_text": "Hypothesis property tests / rule-based state machines, exhaustive small-scope enumeration, enumerated crash and fault points, all against independent reference models; 16-way sharded"}],
    "checks": checks,
    "notes": "Every check: exit 0 held / 1 VIOLATION line + replay file / 2 harness error or inconclusive. Deterministic in (tree, VERIF_SEED, tier). Known findings: /verif/known_findings.txt.",
    "not_applicable": na,
}
json.dump(m, open(os.path.join(HERE, "MANIFEST.json"), "w"), indent=1)
print("checks:", [c["property_id"] for c in checks], "not claimed:", len(na))
