#!/bin/sh
# tools/seedin.sh C07 ... : import the sub-agent's deliverables from /tmp/seed/<id>, drop the scratch worktree, verify and run the property's check
cd "$(dirname "$0")/.."
for p in "$@"; do
  out=$(tools/seed.py import /tmp/seed/$p $p) || { echo "import failed for $p"; continue; }
  names=$(echo "$out" | sed -n 's/^imported //p' | tr '\n' ' ')
  git -C /repo worktree remove --force /tmp/seed/$p
  tools/seed.py verify $names 2>&1 | grep -E "^C[0-9]"
  tools/seed.py run $names 2>&1 | grep -E "^C[0-9]" | cut -c1-260
done
