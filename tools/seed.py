#!/venv/bin/python
"""Seeded changes written by independent sub-agents: import, verify, and run the checks against them.

  tools/seed.py import /tmp/seed/C09 C09        -> seeded/C09-1, seeded/C09-2 (patch.diff, demo.py, meta.json)
  tools/seed.py verify [name ...]               -> patch applies to current /repo, unit tests pass with it, demo fails with / passes without
  tools/seed.py run [--tier quick] [--also C01,C06] [name ...]  -> run the property's check against the patched copy

Everything happens on a scratch copy of /repo's working tree under /dev/shm (removed afterwards); /repo is never modified.
"""
import json, os, shutil, subprocess, sys, tempfile, time

HERE = os.path.dirname(os.path.abspath(__file__))
VERIF = os.path.dirname(HERE)
SEEDED = os.path.join(VERIF, "seeded")
PY = "/venv/bin/python"


def scratch_copy():
    d = tempfile.mkdtemp(prefix="tfseed-", dir="/dev/shm")
    shutil.copytree("/repo/tinyflux", os.path.join(d, "tinyflux"))
    shutil.copytree("/repo/tests", os.path.join(d, "tests"))
    return d


def apply(d, patch):
    r = subprocess.run(["patch", "-p1", "--no-backup-if-mismatch", "-s", "-i", patch], cwd=d, capture_output=True, text=True)
    return r.returncode == 0, (r.stdout + r.stderr)[-500:]


def env_for(d):
    return dict(os.environ, PYTHONPATH=d, PYTHONDONTWRITEBYTECODE="1")


def names_or_all(names):
    return names or sorted(n for n in os.listdir(SEEDED) if os.path.isdir(os.path.join(SEEDED, n)) and n not in ("obsolete", "rejected"))


def cmd_import(src, pid):
    notes = json.load(open(os.path.join(src, "_seed", "notes.json")))
    k = 0  # round number: first free block of names <pid>-<10k+1>, <pid>-<10k+2> (also counting seeded/obsolete)
    while any(os.path.exists(os.path.join(SEEDED, sub, "%s-%d" % (pid, j + 10 * k))) for sub in ("", "obsolete") for j in (1, 2)):
        k += 1
    for i, n in enumerate(notes, 1):
        name = "%s-%d" % (pid, i + 10 * k)
        dst = os.path.join(SEEDED, name)
        os.makedirs(dst)
        shutil.copy(os.path.join(src, "_seed", n["patch"]), os.path.join(dst, "patch.diff"))
        shutil.copy(os.path.join(src, "_seed", n["demo"]), os.path.join(dst, "demo.py"))
        meta = {"property": pid, "breaks": n.get("what_it_breaks"), "needs_to_manifest": n.get("needs_to_manifest"), "author": "independent sub-agent given only the property text and a scratch worktree", "agent_commands": n.get("commands_run")}
        json.dump(meta, open(os.path.join(dst, "meta.json"), "w"), indent=1)
        print("imported", name)


def cmd_verify(names):
    for name in names_or_all(names):
        dst = os.path.join(SEEDED, name)
        meta = json.load(open(os.path.join(dst, "meta.json")))
        d = scratch_copy()
        try:
            r0 = subprocess.run([PY, os.path.join(dst, "demo.py")], cwd=d, env=env_for(d), capture_output=True, text=True, timeout=300)
            ok, msg = apply(d, os.path.join(dst, "patch.diff"))
            if not ok:
                print("%-10s PATCH DOES NOT APPLY: %s" % (name, msg))
                meta["verified"] = {"applies": False}
            else:
                rt = subprocess.run([PY, "-m", "pytest", "-q", "-p", "no:cacheprovider", "tests"], cwd=d, env=env_for(d), capture_output=True, text=True, timeout=600)
                r1 = subprocess.run([PY, os.path.join(dst, "demo.py")], cwd=d, env=env_for(d), capture_output=True, text=True, timeout=300)
                head = subprocess.run(["git", "-C", "/repo", "rev-parse", "--short", "HEAD"], capture_output=True, text=True).stdout.strip()
                meta["verified"] = {"applies": True, "repo_head": head, "unit_tests_pass_with_change": rt.returncode == 0, "demo_exit_without_change": r0.returncode, "demo_exit_with_change": r1.returncode,
                                    "ran": ["patch -p1 < patch.diff on a scratch copy of /repo", "pytest -q tests (with change)", "python demo.py (without and with change)"]}
                good = rt.returncode == 0 and r0.returncode == 0 and r1.returncode != 0
                meta["verified"]["ok"] = good
                print("%-10s %s  tests=%s demo_without=%d demo_with=%d" % (name, "OK " if good else "BAD", "pass" if rt.returncode == 0 else "FAIL", r0.returncode, r1.returncode))
            json.dump(meta, open(os.path.join(dst, "meta.json"), "w"), indent=1)
        finally:
            shutil.rmtree(d, ignore_errors=True)


def cmd_run(names, tier, also):
    for name in names_or_all(names):
        dst = os.path.join(SEEDED, name)
        meta = json.load(open(os.path.join(dst, "meta.json")))
        d = scratch_copy()
        try:
            ok, msg = apply(d, os.path.join(dst, "patch.diff"))
            if not ok:
                print("%-10s PATCH DOES NOT APPLY" % name)
                continue
            for prop in [meta["property"]] + [a for a in also if a != meta["property"]]:
                if not os.path.exists(os.path.join(VERIF, "tfverif", "checks", prop.lower() + ".py")):
                    print("%-10s %s  (no check yet)" % (name, prop))
                    continue
                t0 = time.time()
                r = subprocess.run([os.path.join(VERIF, "run.sh"), prop, tier], capture_output=True, text=True, env=dict(os.environ, TFVERIF_REPO=d, TFVERIF_NO_EVIDENCE="1", VERIF_SEED=os.environ.get("VERIF_SEED", "1")))
                verdict = {0: "MISSED", 1: "caught", 2: "HARNESS-ERROR"}.get(r.returncode, "rc=%d" % r.returncode)
                print("%-10s %s %-8s %5.1fs  %s" % (name, prop, verdict, time.time() - t0, (r.stderr.strip().splitlines() or [""])[0][:160] if r.returncode else ""))
                if r.returncode == 2:
                    print(r.stderr[-700:])
                meta.setdefault("detection", {})["%s/%s" % (prop, tier)] = {"verdict": verdict, "wall_s": round(time.time() - t0, 1), "seed": int(os.environ.get("VERIF_SEED", "1"))}
            json.dump(meta, open(os.path.join(dst, "meta.json"), "w"), indent=1)
        finally:
            shutil.rmtree(d, ignore_errors=True)


def cmd_matrix(names, tier="quick"):
    """Run every check that covers the files a seeded change touches (mapping of tools/automut.py); write seeded/MATRIX.md."""
    sys.path.insert(0, HERE)
    from automut import CHECKS_FOR

    rows = []
    for name in names_or_all(names):
        dst = os.path.join(SEEDED, name)
        patch = open(os.path.join(dst, "patch.diff")).read()
        files = sorted({os.path.basename(l.split()[1]) for l in patch.splitlines() if l.startswith("+++ ")})
        meta = json.load(open(os.path.join(dst, "meta.json")))
        checks = [meta["property"]] + [c for f in files for c in CHECKS_FOR.get(f, []) if c != meta["property"]]
        checks = list(dict.fromkeys(checks))
        cmd_run([name], tier, checks[1:])
        meta = json.load(open(os.path.join(dst, "meta.json")))
        det = meta.get("detection", {})
        rows.append((name, meta["property"], files, {c: det.get("%s/%s" % (c, tier), {}).get("verdict", "-") for c in checks}))
    with open(os.path.join(SEEDED, "MATRIX.md"), "w") as f:
        f.write("# Seeded changes x checks (quick tier, seed %s)\n\nEach change was run against its own property's check and against every check mapped to the files it touches.\n\n" % os.environ.get("VERIF_SEED", "1"))
        f.write("| seed | property | files | caught by | missed by |\n|---|---|---|---|---|\n")
        for name, prop, files, d in rows:
            f.write("| %s | %s | %s | %s | %s |\n" % (name, prop, ", ".join(files), " ".join(c for c, v in d.items() if v == "caught"), " ".join(c for c, v in d.items() if v != "caught") or "-"))


if __name__ == "__main__":
    a = sys.argv[1:]
    if a[0] == "import":
        cmd_import(a[1], a[2])
    elif a[0] == "verify":
        cmd_verify(a[1:])
    elif a[0] == "matrix":
        cmd_matrix(a[1:])
    elif a[0] == "run":
        tier, also, names = "quick", [], []
        it = iter(a[1:])
        for x in it:
            if x == "--tier":
                tier = next(it)
            elif x == "--also":
                also = next(it).split(",")
            else:
                names.append(x)
        cmd_run(names, tier, also)
