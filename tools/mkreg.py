#!/venv/bin/python
"""Write the directed regression histories for the defects that were fixed in /repo (one per root cause)."""
import json, os
HERE = os.path.dirname(os.path.dirname(os.path.abspath(__file__)))
T = lambda s: {"$dt": s}
T0, T1, T2, TM = "2020-01-01T00:00:00+00:00", "2020-01-02T00:00:00+00:00", "2020-01-03T00:00:00+00:00", "2019-12-31T00:00:00+00:00"
def P(t, m="m1", tags=None, fields=None): return {"time": T(t), "measurement": m, "tags": tags or {}, "fields": fields or {}}
def ins(p, clamp=False): return ["insert", p, 0, clamp, "db", False]
def leaf(attr, path, test): return ["leaf", attr, path, test]
def tcmp(op, t): return leaf("time", [], ["cmp", op, T(t)])
K = lambda k: ["key", k]
REG = {
 "reset-keeps-storage-positions": (["C01", "C06", "C07"], [ins(P(T0)), ins(P(T1)), ["remove_all"], ins(P(T2)), ["probe", tcmp(">=", T0), None, "time", "db"], ["getters", None, [], "a", "db"]]),
 "partial-remove-misaligns-timestamps": (["C01", "C02", "C06", "C07"], [ins(P(T0, tags={"a": "x"})), ins(P(T1, tags={"a": "y"})), ins(P(T2, tags={"a": "z"})), ["remove", leaf("tag", [K("a")], ["cmp", "==", "x"]), None, "db"], ["probe", tcmp(">=", T2), None, "time", "db"], ["getters", None, [], "a", "db"], ["getters", "m1", [], "a", "db"]]),
 "not-field-candidates-treated-as-exact": (["C01", "C02", "C03"], [ins(P(T0, fields={"a": 1})), ins(P(T1, fields={"a": 2})), ins(P(T2)), ["probe", ["not", leaf("field", [K("a")], ["cmp", "==", 1])], None, "fields.a", "db"], ["update", ["not", leaf("field", [K("a")], ["cmp", "==", 1])], None, {"tags": {"a": "upd"}}, "db"], ["remove", ["not", leaf("field", [K("a")], ["cmp", "==", 1])], None, "db"]]),
 "field-map-ignored-by-index": (["C01"], [ins(P(T0, fields={"a": 1})), ins(P(T1, fields={"a": 2})), ["probe", leaf("field", [K("a"), ["map", "double"]], ["cmp", "==", 2]), None, "time", "db"], ["probe", leaf("field", [K("a"), ["map", "reciprocal"]], ["cmp", "==", 1]), None, "time", "db"]]),
 "noop-misses-untagged-points": (["C01", "C03", "C10"], [ins(P(T0)), ins(P(T1, tags={"a": "x"})), ["probe", leaf("tag", [K("a")], ["noop"]), None, "time", "db"], ["probe", leaf("field", [K("a")], ["noop"]), "m1", "time", "handle"], ["update", None, "m1", {"tags": {"b": "y"}}, "handle_update_all"]]),
 "time-map-ignored-by-index": (["C01"], [ins(P(T0)), ins(P("2021-06-01T00:00:00+00:00")), ["probe", leaf("time", [["map", "year"]], ["test", "in", [2021]]), None, "time", "db"], ["probe", leaf("time", [["map", "plus_day"]], ["cmp", "==", T(T1)]), None, "time", "db"], ["probe", leaf("time", [["map", "plus_day"]], ["cmp", "<=", T(T1)]), None, "time", "db"]]),
 "get-field-values-ignores-measurement": (["C07", "C10"], [ins(P(T0, "m1", fields={"a": 1})), ins(P(T1, "m2", fields={"a": 2})), ["getters", "m1", [], "a", "db"], ["getters", "m2", [], "a", "handle"]]),
 "csv-len-counts-lines": (["C07"], [ins(P(T0, tags={"a": "x\ny"})), ins(P(T1, tags={"a": "x\r\ny\nz"})), ["getters", None, [], "a", "db"]]),
 "update-time-not-normalised": (["C03"], [ins(P(T0)), ins(P(T1)), ["update", tcmp("==", T0), None, {"time": T("2020-01-05T05:45:00+05:45")}, "db"], ["probe", tcmp(">=", T0), None, "time", "db"]]),
 "callable-result-not-validated": (["C11"], [ins(P(T0, tags={"a": "x"})), ["update", leaf("tag", [K("a")], ["exists"]), None, {"tags": ["fn_invalid", 1, "tags_const", 0]}, "db"], ["update", leaf("tag", [K("a")], ["exists"]), None, {"fields": ["fn_invalid", 1, "fields_const", 0]}, "db"]]),
 "insert-multiple-raise-leaves-stale-valid-index": (["C11", "C06"], [["reindex"], ["insert_multiple", [P(T0), P(T1)], 0, "asis", "db", 1, "m1"], ["probe", tcmp(">=", T0), None, "time", "db"], ["getters", None, [], "a", "db"]]),
}
for name, (props, ops) in REG.items():
    for pid in props:
        d = os.path.join(HERE, "regressions", pid)
        os.makedirs(d, exist_ok=True)
        json.dump({"property": pid, "sub": "directed", "message": "directed regression for the fixed defect '%s'" % name, "case": {"ops": ops, "config": None}}, open(os.path.join(d, name + ".json"), "w"), indent=1)
print("written", sum(len(v[0]) for v in REG.values()))
