"""Query expressions as plain data, a builder through tinyflux's public DSL, and an independent evaluator.

Q     ::= ["not", Q] | ["and", Q, Q] | ["or", Q, Q] | ["leaf", attr, path, test]
attr  ::= "time" | "meas" | "tag" | "field"
path  ::= list of ["key", k] | ["map", name]          (tag/field paths start with a key)
test  ::= ["cmp", op, rhs] | ["exists"] | ["matches", regex, flags] | ["search", regex, flags]
        | ["test", name, args] | ["noop"]

REF is written from docs/source/querying-data.rst and the statement of C09; it never touches tinyflux.
A model point is a dict(time=aware datetime, measurement=str, tags=dict, fields=dict).
"""
import operator
from datetime import datetime as _datetime, timezone as _timezone
import re

OPS = {"==": operator.eq, "!=": operator.ne, "<": operator.lt, "<=": operator.le, ">": operator.gt, ">=": operator.ge}


# ---- registry of user functions (named so that replay files can refer to them) -------------------
def t_is_none(x):
    return x is None


def t_truthy(x):
    return bool(x)


def t_total_even(x):
    return isinstance(x, (int, float)) and not isinstance(x, bool) and x == x and abs(x) != float("inf") and x % 2 == 0


def t_is_str(x):
    return isinstance(x, str)


def t_in(x, *allowed):
    return x in allowed


def t_len_lt(x, n):
    return isinstance(x, str) and len(x) < n


def t_strlen(x):
    return len(x) if isinstance(x, str) else 0  # a truthy / falsy result that is not a bool (2 for "xy"): tests count by truthiness


def t_strlen_bool(x):
    return bool(t_strlen(x))


def t_year_even(x):
    return hasattr(x, "year") and x.year % 2 == 0


TESTS = {"is_none": t_is_none, "truthy": t_truthy, "total_even": t_total_even, "is_str": t_is_str, "in": t_in, "len_lt": t_len_lt, "year_even": t_year_even, "strlen": t_strlen, "strlen_bool": t_strlen_bool}
NONBOOL_TESTS = {"strlen": "strlen_bool"}


def m_double(x):
    return x * 2  # raises on None


def m_first_char(x):
    return x[0]  # raises on '' / None / numbers


def m_ident(x):
    return x


def m_upper(x):
    return x.upper()  # raises on None / numbers


def m_reciprocal(x):
    return 1 / x  # raises on 0 / None


def m_neg(x):
    return -x


def m_year(x):
    return x.year


def m_len(x):
    return len(x)


def m_plus_day(x):
    import datetime

    return x + datetime.timedelta(days=1)


MAPS = {"double": m_double, "first_char": m_first_char, "ident": m_ident, "upper": m_upper, "reciprocal": m_reciprocal, "neg": m_neg, "year": m_year, "len": m_len, "plus_day": m_plus_day}


# ---- builder: only the public DSL ----------------------------------------------------------------
def build(q, combined=False):
    """combined: the query is an operand of & or |.  tinyflux combines operand results with the bitwise operators, which is the
    logical combination only for bool results - the documented return type of a test function (Callable[..., bool]).  Test functions
    returning other truthy / falsy values are therefore used as a whole query or under ~ only, where every path goes by truth value;
    as an operand of & or | the same function is wrapped to return a bool."""
    from tinyflux import FieldQuery, MeasurementQuery, TagQuery, TimeQuery

    k = q[0]
    if k == "not":
        return ~build(q[1], combined)
    if k == "and":
        return build(q[1], True) & build(q[2], True)
    if k == "or":
        return build(q[1], True) | build(q[2], True)
    _, attr, path, test = q
    if combined and test[0] == "test" and test[1] in NONBOOL_TESTS:
        test = ["test", NONBOOL_TESTS[test[1]], test[2]]
    base = {"time": TimeQuery, "meas": MeasurementQuery, "tag": TagQuery, "field": FieldQuery}[attr]()
    for part in path:
        if part[0] == "key":
            base = base[part[1]]
        else:
            base = base.map(MAPS[part[1]])
    kind = test[0]
    if kind == "cmp":
        op, rhs = test[1], test[2]
        if op == "==":
            return base == rhs
        if op == "!=":
            return base != rhs
        if op == "<":
            return base < rhs
        if op == "<=":
            return base <= rhs
        if op == ">":
            return base > rhs
        if op == ">=":
            return base >= rhs
    if kind == "exists":
        return base.exists()
    if kind == "matches":
        return base.matches(test[1], test[2]) if test[2] else base.matches(test[1])
    if kind == "search":
        return base.search(test[1], test[2]) if test[2] else base.search(test[1])
    if kind == "test":
        return base.test(TESTS[test[1]], *test[2])
    if kind == "noop":
        return base.noop()
    raise ValueError(q)


# ---- reference evaluator -------------------------------------------------------------------------
def _utc(x):
    """Times are compared as instants.  (Python's == between aware datetimes of different zones is never true when one of them
    lies in a DST fold or gap - PEP 495 - so both sides are brought to UTC first.)"""
    if isinstance(x, _datetime) and x.tzinfo is not None:
        return x.astimezone(_timezone.utc)
    return x


def ref(q, p):
    k = q[0]
    if k == "not":
        return not ref(q[1], p)
    if k == "and":
        return ref(q[1], p) and ref(q[2], p)
    if k == "or":
        return ref(q[1], p) or ref(q[2], p)
    _, attr, path, test = q
    kind = test[0]
    if kind == "noop":
        return True  # "Evaluate to True", whatever the path
    v = {"time": p["time"], "meas": p["measurement"], "tag": p["tags"], "field": p["fields"]}[attr]
    for part in path:
        if part[0] == "key":
            if not isinstance(v, dict) or part[1] not in v:
                return False  # missing key is false, not an error
            v = v[part[1]]
        else:
            try:
                v = MAPS[part[1]](v)
            except Exception:
                return False  # a path that cannot be resolved is false
    if kind == "cmp":
        try:
            return bool(OPS[test[1]](_utc(v), _utc(test[2])))
        except Exception:
            return False  # comparison undefined (e.g. None < 'x') is false
    if kind == "exists":
        return True
    if kind == "test":
        return bool(TESTS[test[1]](v, *test[2]))
    if kind in ("matches", "search"):
        if not isinstance(v, str):
            return False  # a None tag value matches no regular expression
        fn = re.match if kind == "matches" else re.search
        return fn(test[1], v, test[2]) is not None
    raise ValueError(q)


def leaves(q):
    if q[0] == "leaf":
        yield q
    else:
        for sub in q[1:]:
            yield from leaves(sub)


def depth(q):
    return 0 if q[0] == "leaf" else 1 + max(depth(s) for s in q[1:])


def features(q, out=None):
    out = set() if out is None else out
    k = q[0]
    if k == "not":
        out.add("not")
        if q[1][0] == "leaf" and q[1][1] == "field":
            out.add("not_field_leaf")
        features(q[1], out)
    elif k in ("and", "or"):
        out.add(k)
        features(q[1], out)
        features(q[2], out)
    else:
        _, attr, path, test = q
        out.add(attr)
        if any(part[0] == "map" for part in path):
            out.add(attr + "_map")
        if sum(1 for part in path if part[0] == "key") >= 2:
            out.add("two_keys")
        if test[0] == "noop":
            out.add(attr + "_noop")
        if test[0] in ("matches", "search"):
            out.add("regex")
        if test[0] in ("exists", "test"):
            out.add(test[0])
    return out


def show(q):
    """Compact human-readable form for evidence samples."""
    k = q[0]
    if k == "not":
        return "~(%s)" % show(q[1])
    if k in ("and", "or"):
        return "(%s %s %s)" % (show(q[1]), "&" if k == "and" else "|", show(q[2]))
    _, attr, path, test = q
    s = {"time": "Time", "meas": "Meas", "tag": "Tag", "field": "Field"}[attr]
    for part in path:
        s += "[%r]" % part[1] if part[0] == "key" else ".map(%s)" % part[1]
    if test[0] == "cmp":
        r = test[2]
        return "%s %s %s" % (s, test[1], r.isoformat() if hasattr(r, "isoformat") else repr(r))
    if test[0] in ("matches", "search"):
        return "%s.%s(%r, %d)" % (s, test[0], test[1], test[2])
    if test[0] == "test":
        return "%s.test(%s%s)" % (s, test[1], "".join(", %r" % a for a in test[2]))
    return "%s.%s()" % (s, test[0])
