"""python -m tfverif.cli <ID> <quick|thorough> | --replay <file> | --survey <ID> [args]"""
import os
import sys

from . import core


def main(argv):
    if not argv:
        sys.stderr.write(__doc__ + "\n")
        return 2
    try:
        if argv[0] == "--replay":
            return core.run_replay(argv[1])
        if argv[0] == "--survey":
            import importlib

            mod = importlib.import_module("tfverif.checks." + argv[1].lower())
            core.check_tree()
            return mod.survey(argv[2:])
        cid = argv[0].upper()
        tier = argv[1] if len(argv) > 1 else os.environ.get("VERIF_TIER", "quick")
        if tier not in ("quick", "thorough"):
            sys.stderr.write("tier must be quick or thorough\n")
            return 2
        seed = int(os.environ.get("VERIF_SEED", "1") or "1")
        return core.run_check("tfverif.checks." + cid.lower(), tier, seed)
    except core.HarnessError as e:
        sys.stderr.write("HARNESS-ERROR: %s\n" % e)
        return 2
    except Exception:
        import traceback

        sys.stderr.write("HARNESS-ERROR:\n" + traceback.format_exc())
        return 2


if __name__ == "__main__":
    sys.exit(main(sys.argv[1:]))
