"""Wide value generators (C04, C05, C08): arbitrary Unicode mixed with adversarial strings, all float64, unbounded ints."""
import math
from datetime import datetime, timedelta, timezone

from hypothesis import strategies as st

ADVERSARIAL = [
    "_none", "_tag_", "t_", "f_", "_field_", "t", "f", "_", "", ",", '"', "'", "\r", "\n", "\r\n", "\0", " ", "  x  ", "_default", "_none_", "__none", "_None", "__none_", "_tag_a", "t_a", "_field_a", "f_a",
    "a,b", 'a"b', "a\nb", "a\rb", "a\r\nb", "\\", "\\n", ";", "\t", "|", "é", "日本", " ", "\x85", "-1", "1.0", "nan", "inf", "1e5", "0", "None", "null", "=1+1", "﻿",
]


def text(max_size=12):
    return st.one_of(st.sampled_from(ADVERSARIAL), st.text(max_size=max_size), st.sampled_from(ADVERSARIAL).flatmap(lambda a: st.text(max_size=4).map(lambda t: a + t)), st.text(alphabet=',"\r\n\0 _tf;\t\'\\', max_size=6))


def long_text():
    return st.integers(8200, 9000).map(lambda n: ("x," * n)[:n])


def floats():
    special = [0.0, -0.0, math.inf, -math.inf, 5e-324, -5e-324, 2.2250738585072014e-308, 1.7976931348623157e308, -1.7976931348623157e308, 0.1, 1 / 3, 1e16, 9007199254740993.0, 1e-7, 123456789.12345679]
    return st.one_of(st.floats(allow_nan=False), st.sampled_from(special))


def ints(big=True):
    small = st.one_of(st.integers(-(2**53), 2**53), st.sampled_from([0, -1, 1, 2**53, -(2**53), 2**31, 10**15]))
    if not big:
        return small
    return st.one_of(small, st.integers(), st.sampled_from([2**53 + 1, -(2**53) - 1, 10**30, 10**400]))


def field_values(big_ints=True):
    return st.one_of(st.none(), floats(), ints(big_ints))


UTC = timezone.utc
LO = datetime(1700, 1, 1)
HI = datetime(2240, 1, 1)


def utc_times():
    grid = [datetime(1970, 1, 1), datetime(1969, 12, 31, 23, 59, 59, 999999), datetime(2000, 2, 29, 12), datetime(1700, 1, 1), datetime(2239, 12, 31, 23, 59, 59, 999999), datetime(2038, 1, 19, 3, 14, 8)]
    return st.one_of(st.datetimes(min_value=LO, max_value=HI - timedelta(microseconds=1)), st.sampled_from(grid)).map(lambda d: d.replace(tzinfo=UTC))


@st.composite
def wide_points(draw, known=frozenset(), max_keys=3):
    """Valid points over the wide domain; values in a listed known-finding class are steered away from and counted by the caller."""
    def tv():
        return draw(st.one_of(st.none(), text()))

    tags = {draw(text(8)): tv() for _ in range(draw(st.integers(0, max_keys)))}
    fields = {draw(text(8)): draw(field_values()) for _ in range(draw(st.integers(0, max_keys)))}
    return {"time": draw(utc_times()), "measurement": draw(text()), "tags": tags, "fields": fields}
