"""Hypothesis strategies for histories (lists of operations understood by lockstep.Lockstep)."""
import copy

from hypothesis import strategies as st

from . import gen
from .lockstep import BAD_VALUES, UPD

VIAS_M = ["db", "db", "handle", "old_handle"]
SELECT_KEYS = [
    "time", "measurement", "tags.a", "fields.a", "tags.b", "fields.f", ["time"], ["tags.a", "fields.a"], ["measurement", "time", "tags.t x"],
    ["fields.a", "fields._t", "tags.a"], ["tags.zz"], ["fields.zz", "time"], "tags.a.b", ["tags.a", "tags.a.b"],
]


def op_insert():
    return st.tuples(st.just("insert"), gen.points(), st.integers(0, 3), st.booleans() | st.just(True), st.sampled_from(["db", "db", "db_meas", "handle", "old_handle"]), st.booleans()).map(list)


def op_insert_reuse():
    return st.tuples(st.just("insert_reuse"), gen.points(), st.booleans()).map(list)


def op_insert_stamped():
    return st.tuples(st.just("insert_stamped"), gen.points(), st.integers(1, 3), st.sampled_from(["db", "db", "db_meas", "handle"]), st.sampled_from([False, False, False, True])).map(list)


def op_insert_multiple(bad=False):
    return st.tuples(
        st.just("insert_multiple"), st.lists(gen.points(), min_size=0 if not bad else 1, max_size=6), st.integers(0, 3), st.sampled_from(["inorder", "inorder", "asis", "inorder", "inorder", "asis", "asis_recycled", "asis_reading"]),
        st.sampled_from(["db", "db", "db_meas", "handle"]), st.sampled_from([0, 1, 2, 3, 4, 0, 1, 2, 3, 4, 100, 101, 102, 103]) if bad else st.none(), st.sampled_from(gen.MEAS),
    ).map(list)


def op_remove():
    return st.tuples(st.just("remove"), gen.queries(3), gen.meas_filter(), st.sampled_from(VIAS_M)).map(list)


def hit_spec():
    return st.tuples(st.integers(0, 30), st.sampled_from(["time", "time", "meas", "tag", "tag", "field", "field", "tag_exists", "field_exists"]), st.integers(0, 11), st.sampled_from([0, 0, 1, 2, 3])).map(list)


def hit_m():
    return st.sampled_from([None, None, None, "<own>", "<own>", "m1", "absent"])


def op_probe_hit():
    return st.tuples(st.just("probe_hit"), hit_spec(), gen.queries(2), hit_m(), st.sampled_from(SELECT_KEYS), st.sampled_from(VIAS_M)).map(list)


def op_remove_hit():
    return st.tuples(st.just("remove_hit"), hit_spec(), gen.queries(2), hit_m(), st.sampled_from(VIAS_M)).map(list)


def op_update_hit(fault=False):
    args = update_args(fault)
    if not fault:
        # occasionally: the stored point's own instant, written in an IANA zone (for instants inside a DST fold Python's == between
        # zones is never true, yet nothing changes)
        same = st.sampled_from(["America/New_York", "Europe/London", "Australia/Lord_Howe"]).map(lambda z: {"time": ["hit_time_in_zone", z]})
        args = st.one_of(args, args, args, args, args, args, args, same)
    return st.tuples(st.just("update_hit"), hit_spec(), gen.queries(2), hit_m(), args, st.sampled_from(["db", "db", "handle", "old_handle"])).map(list)


def op_update_same_tags():
    """Static tags that every selected point carries already, next to an unset of a field: the tags change nothing, the unset does."""
    return st.tuples(st.sampled_from(["x", "xy", None]), st.sampled_from(gen.FKEYS), st.booleans(), st.sampled_from(["db", "handle", "old_handle"])).map(
        lambda t: ["update", ["leaf", "tag", [["key", "a"]], ["cmp", "==", t[0]]], None, {"tags": {"a": t[0]}, ("unset_fields" if t[2] else "unset_tags"): (t[1] if t[2] else "b")}, "db"]
    )


def op_drop():
    return st.tuples(st.just("drop"), st.sampled_from(gen.MEAS + ["absent"]), st.sampled_from(["db", "handle", "old_handle"])).map(list)


def op_remove_all():
    return st.just(["remove_all"])


@st.composite
def update_args(draw, fault=False):
    if not fault and draw(st.integers(0, 5)) == 0:
        # a key set and unset by the same call (the unset must win), static or via callable
        if draw(st.booleans()):
            k = draw(st.sampled_from(gen.TKEYS))
            tags = ["fn", "tags_const"] if k == "a" and draw(st.booleans()) else {k: draw(st.sampled_from(["x", "upd", None]))}
            return {"tags": tags, "unset_tags": draw(st.sampled_from([k, [k], [k, "zz"]]))}
        k = draw(st.sampled_from(gen.FKEYS))
        fields = ["fn", "fields_const"] if k == "f" and draw(st.booleans()) else {k: draw(st.sampled_from([1, 7, None]))}
        return {"fields": fields, "unset_fields": draw(st.sampled_from([k, [k], [k, "zz"]]))}
    if fault == "clean":
        # a callable that fails on its very first call, as the only argument: nothing can have been assigned before the failure
        sl = draw(st.sampled_from(sorted(UPD)))
        kind = draw(st.sampled_from(["fn_raise", "fn_invalid"]))
        name = draw(st.sampled_from(sorted(UPD[sl])))
        return {sl: [kind, 1, name] if kind == "fn_raise" else [kind, 1, name, draw(st.integers(0, len(BAD_VALUES[sl]) - 1))]}
    slots = draw(st.lists(st.sampled_from(["time", "measurement", "tags", "fields", "unset_tags", "unset_fields"]), min_size=1, max_size=3, unique=True))
    args = {}
    fault_slot = None
    if fault:
        cands = [s for s in slots if s in UPD]
        if not cands:
            slots.append("tags")
            cands = ["tags"]
        fault_slot = draw(st.sampled_from(cands))
    for s in slots:
        if s == "unset_tags":
            args[s] = draw(st.sampled_from(["a", "b", ["a"], ["a", "b"], ["zz"], ["t x", "a"], "ab", "xa", ["ab"]]))  # "ab": a plain string that merely contains other keys
        elif s == "unset_fields":
            args[s] = draw(st.sampled_from(["a", "f", ["a"], ["a", "f"], ["zz"], ["_t"], "af", "_ta", ["af"]]))
        elif s == fault_slot:
            kind = draw(st.sampled_from(["fn_raise", "fn_invalid"]))
            j = draw(st.integers(1, 4))
            name = draw(st.sampled_from(sorted(UPD[s])))
            args[s] = [kind, j, name] if kind == "fn_raise" else [kind, j, name, draw(st.integers(0, len(BAD_VALUES[s]) - 1))]
        elif draw(st.booleans()):
            args[s] = ["fn", draw(st.sampled_from(sorted(UPD[s])))]
        elif s == "time":
            args[s] = draw(gen.times()).astimezone(draw(gen.offsets()))
        elif s == "measurement":
            args[s] = draw(st.sampled_from(["m1", "m2", "a,b", "new"]))
        elif s == "tags":
            args[s] = draw(st.dictionaries(st.sampled_from(gen.TKEYS), st.sampled_from(gen.TVALS), min_size=1, max_size=2))
        else:
            args[s] = draw(st.dictionaries(st.sampled_from(gen.FKEYS), st.sampled_from(gen.FVALS), min_size=1, max_size=2))
    return args


def op_update(fault=False):
    return st.tuples(st.just("update"), gen.queries(2), gen.meas_filter(), update_args(fault), st.sampled_from(["db", "db", "handle", "old_handle", "update_all", "handle_update_all"])).map(list).map(fix_update)


def fix_update(op):
    # a measurement-scoped update_all needs a measurement
    if op[4] == "handle_update_all" and op[2] is None:
        op[2] = "m1"
    return op


def op_update_primed_invalid():
    return st.tuples(st.just("update_primed_invalid"), st.one_of(st.just(["leaf", "time", [], ["noop"]]), gen.queries(1)), st.sampled_from([None, None, "m1"]), st.sampled_from(["db", "handle"]), st.booleans()).map(list)


def op_bad_update():
    kinds = ["no_args", "all_falsy", "bad_time", "bad_measurement", "bad_tags", "bad_tag_key", "bad_fields", "bad_field_bool", "bad_unset_tags", "bad_unset_fields", "not_a_query"]
    return st.tuples(st.just("bad_update"), st.sampled_from(kinds), gen.queries(1), st.sampled_from([None, None, "m1"])).map(list)


def op_bad_insert():
    return st.tuples(st.just("bad_insert"), st.sampled_from(["dict", "none", "str", "tuple", "overflow_int", "overflow_int", "surrogate", "surrogate"])).map(list)


def op_bad_read():
    return st.tuples(st.just("bad_read"), st.sampled_from(["search_nonquery", "select_badkey", "select_nokey", "select_noniter"]), gen.queries(1)).map(list)


def op_probe():
    return st.tuples(st.just("probe"), gen.queries(3), gen.meas_filter(), st.sampled_from(SELECT_KEYS), st.sampled_from(VIAS_M)).map(list)


NEAR = {
    "field": {-1: [-2, -1.5], -2: [-1], 1: [1.0, 2, True], 2: [2.0, 1], 0: [-0.0, 1], 2.0: [2, 1], -1.5: [-1], None: [0]},
    "tag": {"x": ["X", "xy"], "X": ["x"], "xy": ["x", "x\ny"], "": [None], None: [""], "a,b": ["x"], "x\ny": ["xy"]},
    "meas": {"m1": ["M1", "m2"], "m2": ["m1"], "_default": ["m1"], "a,b": ["m1"], "mé": ["m1"], "": ["m1"], "M1": ["m1"]},
}


def near_variant(draw, q):
    """q with one leaf changed to a near-miss (neighbouring right-hand side, other operator, other regex flag)."""
    if q[0] != "leaf":
        i = draw(st.integers(1, len(q) - 1))
        return q[:i] + [near_variant(draw, q[i])] + q[i + 1:]
    _, attr, path, test = q
    t = list(test)
    if t[0] == "cmp":
        if draw(st.integers(0, 3)) == 0:
            t[1] = draw(st.sampled_from([o for o in ["==", "!=", "<", "<=", ">", ">="] if o != t[1]]))
        elif attr == "time" and hasattr(t[2], "isoformat"):
            from datetime import timedelta

            t[2] = t[2] + timedelta(microseconds=draw(st.sampled_from([-1, 1])))
        else:
            opts = NEAR.get(attr, {}).get(t[2] if not isinstance(t[2], bool) else None)
            if opts and not any(part[0] == "map" for part in path):
                t[2] = draw(st.sampled_from(opts))
            else:
                t[1] = {"==": "!=", "!=": "==", "<": "<=", "<=": "<", ">": ">=", ">=": ">"}[t[1]]
    elif t[0] in ("matches", "search"):
        t[2] = draw(st.sampled_from([f for f in gen.REFLAGS if f != t[2]]))
    elif t[0] == "exists":
        other = [k for k in (gen.TKEYS if attr == "tag" else gen.FKEYS) if ["key", k] != path[0]]
        return ["leaf", attr, [["key", draw(st.sampled_from(other))]] + list(path[1:]), t]
    else:
        return ["not", q]
    return ["leaf", attr, path, t]


@st.composite
def simple_cmp_leaf(draw):
    attr = draw(st.sampled_from(["field", "field", "tag", "meas"]))
    path = [] if attr == "meas" else [["key", draw(st.sampled_from(gen.W_FKEYS if attr == "field" else gen.W_TKEYS))]]
    return ["leaf", attr, path, ["cmp", draw(st.sampled_from(["==", "!=", "<", "<=", ">", ">="])), draw(st.sampled_from(sorted(NEAR[attr], key=repr)))]]


@st.composite
def op_probe_twin(draw):
    q = draw(st.one_of(gen.queries(2), simple_cmp_leaf(), simple_cmp_leaf()))
    return ["probe_twin", q, near_variant(draw, q), draw(gen.meas_filter()), draw(st.sampled_from(SELECT_KEYS)), draw(st.sampled_from(VIAS_M))]


def op_getters():
    tk = st.sampled_from([[], [], ["a"], ["a", "b"], ["zz"], ["a", "a"], ["t x", "zz"]])
    return st.tuples(st.just("getters"), gen.meas_filter(), tk, st.sampled_from(gen.FKEYS + ["zz"]), st.sampled_from(VIAS_M)).map(list)


def op_move():
    return st.tuples(st.just("move"), hit_spec(), st.booleans(), st.sampled_from(["handle", "old_handle", "db"])).map(list)


def op_reindex():
    return st.just(["reindex"])


def op_reopen():
    return st.just(["reopen"])


PROFILES = {
    # weights per operation kind
    "query": dict(clean_fault_update=1, bad_insert_multiple=1, insert=7, insert_multiple=4, remove=2, drop=1, remove_all=1, update=2, reindex=1, reopen=1, probe=8, getters=1),
    "remove": dict(clean_fault_update=1, bad_insert_multiple=1, insert=6, insert_multiple=3, remove=7, drop=2, remove_all=1, update=1, reindex=1, reopen=1, probe=5, getters=1),
    "update": dict(clean_fault_update=1, bad_insert_multiple=1, insert=6, insert_multiple=3, remove=1, drop=1, remove_all=1, update=8, reindex=1, reopen=1, probe=3, getters=1, bad_update=1),
    "index": dict(bad_insert=1, insert=6, insert_multiple=3, remove=3, drop=1, remove_all=1, update=2, fault_update=1, bad_insert_multiple=1, reindex=1, reopen=1, probe=2, getters=1),
    "getters": dict(move=2, clean_fault_update=1, bad_insert_multiple=1, insert=6, insert_multiple=3, remove=2, drop=1, remove_all=1, update=2, reindex=1, reopen=1, probe=1, getters=8),
    "handle": dict(move=3, clean_fault_update=1, bad_insert_multiple=1, insert=6, insert_multiple=3, remove=3, drop=2, remove_all=1, update=4, reindex=1, reopen=1, probe=5, getters=5),
    "raise": dict(insert=6, insert_multiple=2, remove=2, drop=1, remove_all=1, update=2, fault_update=5, bad_insert_multiple=4, bad_update=3, bad_insert=1, bad_read=1, reindex=1, reopen=1, probe=4, getters=1),
}


def sandwich(ops, flags):
    """After a read that is directly followed by a write, repeat the identical read (when the flag for that position is 0)."""
    out = []
    pending = None
    for i, op in enumerate(ops):
        out.append(op)
        if pending is not None and op[0] not in READ_OPS and op[0] not in ("reindex", "reopen"):
            out.append(copy.deepcopy(pending))
            pending = None
        elif op[0] in ("getters", "probe") and flags[i % len(flags)] == 0:
            pending = op
        else:
            pending = None
    return out


READ_OPS = ("probe", "probe_hit", "probe_twin", "getters", "bad_read")


def history(profile, max_ops=30, min_ops=1):
    w = PROFILES[profile]
    table = {
        "insert": op_insert(), "insert_multiple": op_insert_multiple(), "remove": op_remove(), "drop": op_drop(), "remove_all": op_remove_all(),
        "update": op_update(), "fault_update": op_update(True), "bad_insert_multiple": op_insert_multiple(True), "bad_update": op_bad_update(),
        "bad_insert": op_bad_insert(), "bad_read": op_bad_read(), "reindex": op_reindex(), "reopen": op_reopen(), "probe": op_probe(), "getters": op_getters(), "move": op_move(),
    }
    # half of the query-carrying operations derive (part of) their query from a stored point, so that they hit
    # (names that differ by case only: a query about the upper-cased name, asked through one of the two measurements)
    case_probe = st.tuples(st.sampled_from(["M1", "m1", None]), st.sampled_from(["==", "!="]), st.sampled_from(VIAS_M)).map(
        lambda t: ["probe", ["leaf", "meas", [["map", "upper"]], ["cmp", t[1], "M1"]], t[0], "measurement", t[2]]
    )
    table["probe"] = st.one_of(op_probe(), op_probe_hit(), op_probe_hit(), op_probe_twin(), op_probe(), op_probe_hit(), op_probe_hit(), op_probe_twin(), case_probe)
    table["insert"] = st.one_of(op_insert(), op_insert(), op_insert(), op_insert(), op_insert(), op_insert(), op_insert_stamped(), op_insert_reuse())
    table["remove"] = st.one_of(op_remove(), op_remove_hit(), op_remove_hit())
    table["update"] = st.one_of(op_update(), op_update_hit(), op_update_hit(), op_update(), op_update_hit(), op_update_hit(), op_update_same_tags())
    table["fault_update"] = st.one_of(op_update(True), op_update_hit(True), op_update_hit(True), op_update_primed_invalid())
    table["clean_fault_update"] = st.one_of(op_update("clean"), op_update_hit("clean"), op_update_hit("clean"))
    names = [n for n, k in w.items() for _ in range(k)]
    one = st.sampled_from(names).flatmap(lambda n: table[n])
    # st.lists averages ~5 elements whatever max_size is, so longer histories are asked for explicitly
    mid = max(min_ops, max_ops // 3)
    body = st.one_of(st.lists(one, min_size=min_ops, max_size=mid), st.lists(one, min_size=mid, max_size=2 * mid), st.lists(one, min_size=2 * mid, max_size=max_ops))
    # read - write - same read again: whatever a read memoises (per handle, per measurement, per index) has to notice the write
    body = st.tuples(body, st.lists(st.integers(0, 2), min_size=1, max_size=8)).map(lambda t: sandwich(t[0], t[1]))
    # most histories start from a populated database, so that early queries, removals and updates have something to hit
    seeded = st.tuples(st.lists(gen.points(), min_size=3, max_size=10), st.sampled_from(["inorder", "asis"]), body).map(
        lambda t: [["insert_multiple", t[0], 0, t[1], "db", None, "m1"]] + t[2]
    )
    plain = st.one_of(body, seeded, seeded, seeded, seeded)
    # one history in ten stores nothing younger than the epoch (1970-01-01T00:00:00Z, timestamp 0.0, is then the latest instant)
    return st.one_of(*([plain] * 9 + [plain.map(retime_old)]))


def retime_old(ops):
    from datetime import timedelta

    old = [gen.EPOCH, gen.EPOCH, gen.EPOCH - timedelta(microseconds=1), gen.T0 - timedelta(days=20000)]

    def fix(p):
        i = gen.TIMES.index(p["time"]) if p["time"] in gen.TIMES else 0
        return dict(p, time=old[i % len(old)])

    out = []
    for op in ops:
        op = list(op)
        if op[0] in ("insert", "insert_reuse", "insert_stamped") and isinstance(op[1], dict) and op[0] != "insert_stamped":
            op[1] = fix(op[1])
        elif op[0] == "insert_stamped":
            continue  # "now" would be the youngest point
        elif op[0] == "insert_multiple":
            op[1] = [fix(p) for p in op[1]]
        out.append(op)
    return out


@st.composite
def bulk_history(draw, max_points=25):
    """A larger data set loaded at once (in-order, shuffled, duplicates), optionally thinned by a removal, then many probes."""
    pts = draw(st.lists(gen.points(), min_size=0 if max_points <= 25 else (max_points // 3 if max_points < 300 else 262), max_size=max_points))
    ops = [["insert_multiple", pts, draw(st.integers(0, 3)), draw(st.sampled_from(["inorder", "asis"])), "db", None, "m1"]]
    if draw(st.booleans()):
        ops.append(draw(st.one_of(op_remove(), op_remove_hit())))
    if max_points > 25 and draw(st.booleans()):
        ops.append(draw(st.one_of(op_update_hit(), op_remove_hit())))
    if max_points >= 300:
        # positions beyond 256 exist: a probe (so that the index is built), then writes that go through the index
        ops.append(draw(op_probe_hit()))
        ops.append(draw(op_update_hit()))
        ops.append(draw(st.one_of(op_update_same_tags(), op_update_hit(), op_remove_hit())))
    if draw(st.integers(0, 3)) == 0:
        ops.append(draw(op_insert()))
    n = draw(st.integers(6, 14))
    for _ in range(n):
        ops.append(draw(st.one_of(op_probe(), op_probe_hit())))
    return ops
