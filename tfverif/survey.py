"""Development aid: run many histories of a profile, bucket the violations by signature instead of stopping.

python -m tfverif.survey <profile> <examples-per-worker> [seed] [max_ops]
"""
import collections
import multiprocessing
import os
import shutil
import sys

from hypothesis import HealthCheck, Phase, given, seed, settings

from . import core, gen_ops, lockstep, qast


def sig_of(v):
    ops = v.case["ops"]
    last = ops[-1]
    feats = ()
    if last[0] in ("probe", "remove", "update") and last[1]:
        feats = tuple(sorted(qast.features(last[1]) & {"not_field_leaf", "field_map", "tag_map", "time_map", "meas_map", "tag_noop", "field_noop", "time_noop", "meas_noop", "regex", "two_keys"}))
    hist = tuple(sorted({o[0] for o in ops[:-1]} & {"remove", "drop", "remove_all", "update", "reopen", "reindex"}))
    return (v.sub, v.case.get("config"), last[0], feats, hist)


def worker(args):
    profile, n, sd, max_ops, base = args
    sys.stdout = open(os.devnull, "w")
    scratch = os.path.join(base, "w%d" % sd)
    os.makedirs(scratch)
    import tempfile

    tempfile.tempdir = scratch
    ctx = core.Ctx("survey", sd, set(os.environ.get("KNOWN", "").split(",")), scratch, sd)
    sigs = collections.Counter()
    ex = {}
    count = [0]

    @seed(sd)
    @settings(max_examples=n, database=None, deadline=None, phases=[Phase.generate], suppress_health_check=list(HealthCheck))
    @given(gen_ops.history(profile, max_ops))
    def t(ops):
        count[0] += 1
        ls = lockstep.Lockstep(ctx)
        try:
            ls.run(ops)
        except core.Violation as v:
            s = sig_of(v)
            sigs[s] += 1
            if s not in ex or len(v.case["ops"]) < len(ex[s][0]):
                ex[s] = (v.case["ops"], v.message)
        finally:
            shutil.rmtree(ls.dir, ignore_errors=True)

    t()
    return sigs, ex, count[0]


def main(argv):
    profile = argv[0]
    n = int(argv[1])
    sd0 = int(argv[2]) if len(argv) > 2 else 1
    max_ops = int(argv[3]) if len(argv) > 3 else 25
    core.check_tree()
    base = core.scratch_base()
    try:
        with multiprocessing.get_context("fork").Pool(16) as pool:
            res = pool.map(worker, [(profile, n, sd0 * 100 + i, max_ops, base) for i in range(16)])
    finally:
        shutil.rmtree(base, ignore_errors=True)
    sigs = collections.Counter()
    ex = {}
    total = 0
    for s, e, c in res:
        sigs.update(s)
        total += c
        for k, v in e.items():
            if k not in ex or len(v[0]) < len(ex[k][0]):
                ex[k] = v
    print("histories:", total, "failing:", sum(sigs.values()), "signatures:", len(sigs))
    for s, c in sorted(sigs.items(), key=lambda kv: -kv[1]):
        print("%5d %s" % (c, s))
        print("       ", ex[s][1][:400])
        if os.environ.get("SHOW_OPS"):
            print("        ops:", core.jdump(ex[s][0])[:1500])


if __name__ == "__main__":
    main(sys.argv[1:])
