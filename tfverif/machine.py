"""A Hypothesis RuleBasedStateMachine over the same lock-step executor, as a second, state-aware generator of histories.

Rules draw their arguments from Hypothesis and from Bundles of values that really were inserted (points, measurement names), so
queries, removals and updates are built from data the database holds.  Every rule goes through lockstep.Lockstep (model + four
real configurations); the invariant after every step is the passive contents comparison.  The executed operations are logged in
the executor's plain-data format, so a failure is replayed and minimised exactly like a failure of the list-based generator.
"""
import shutil

import hypothesis
from hypothesis import HealthCheck, Phase, settings
from hypothesis import strategies as st
from hypothesis.stateful import Bundle, RuleBasedStateMachine, invariant, precondition, rule, run_state_machine_as_test

from . import core, gen, gen_ops, lockstep, qast


def make_machine(ctx, hooks=(), holder=None, classify=None):
    class Machine(RuleBasedStateMachine):
        points = Bundle("points")

        def __init__(self):
            super().__init__()
            self.ls = lockstep.Lockstep(ctx)
            self.ls.step_hooks = list(hooks)
            if holder is not None:
                holder["ls"] = self.ls
            ctx.acc.cls("stateful_histories")

        def _do(self, op):
            ls = self.ls
            ls.log.append(op)
            getattr(ls, "op_" + op[0])(*op[1:])
            for h in ls.step_hooks:
                h(ls, op)

        @rule(target=points, p=gen.points(), tz=st.integers(0, 3), clamp=st.booleans(), via=st.sampled_from(["db", "db_meas", "handle"]), compact=st.booleans())
        def insert(self, p, tz, clamp, via, compact):
            self._do(["insert", p, tz, clamp, via, compact])
            return p

        # rules are picked uniformly, so inserting is offered three times to keep the databases populated
        @rule(target=points, p=gen.points(), tz=st.integers(0, 3))
        def insert_in_order(self, p, tz):
            self._do(["insert", p, tz, True, "db", False])
            return p

        @rule(target=points, p=gen.points(), tz=st.integers(0, 3))
        def insert_as_is(self, p, tz):
            self._do(["insert", p, tz, False, "db", False])
            return p

        @rule(ps=st.lists(gen.points(), min_size=1, max_size=5), mode=st.sampled_from(["inorder", "asis"]))
        def insert_multiple(self, ps, mode):
            self._do(["insert_multiple", ps, 0, mode, "db", None, "m1"])

        @rule(p=points, kind=st.sampled_from(["time", "tag", "field", "meas"]), op=st.sampled_from(list(qast.OPS)), neg=st.booleans(), keys=st.sampled_from(gen_ops.SELECT_KEYS), via=st.sampled_from(gen_ops.VIAS_M), own=st.booleans())
        def probe_about(self, p, kind, op, neg, keys, via, own):
            q = leaf_about(p, kind, op)
            if neg:
                q = ["not", q]
            self._do(["probe", q, p["measurement"] if own else None, keys, via])

        @rule(q=gen.queries(3), m=gen.meas_filter(), keys=st.sampled_from(gen_ops.SELECT_KEYS), via=st.sampled_from(gen_ops.VIAS_M))
        def probe(self, q, m, keys, via):
            self._do(["probe", q, m, keys, via])

        @rule(p=points, kind=st.sampled_from(["time", "tag", "field", "meas"]), op=st.sampled_from(list(qast.OPS)), via=st.sampled_from(gen_ops.VIAS_M), own=st.booleans())
        def remove_about(self, p, kind, op, via, own):
            self._do(["remove", leaf_about(p, kind, op), p["measurement"] if own else None, via])

        @rule(p=points, kind=st.sampled_from(["time", "tag", "field", "meas"]), args=gen_ops.update_args(), via=st.sampled_from(["db", "handle", "old_handle"]), own=st.booleans())
        def update_about(self, p, kind, args, via, own):
            self._do(["update", leaf_about(p, kind, "=="), p["measurement"] if own else None, args, via])

        @rule(m=gen.meas_filter(), tk=st.sampled_from([[], ["a"], ["a", "zz"]]), fk=st.sampled_from(gen.FKEYS), via=st.sampled_from(gen_ops.VIAS_M))
        def getters(self, m, tk, fk, via):
            self._do(["getters", m, tk, fk, via])

        @precondition(lambda self: len(self.ls.model.points) >= 4)
        @rule(p=points)
        def drop_measurement_of(self, p):
            self._do(["drop", p["measurement"], "db"])

        @rule()
        def reindex(self):
            self._do(["reindex"])

        @rule()
        def reopen(self):
            self._do(["reopen"])

        @precondition(lambda self: len(self.ls.model.points) >= 6)
        @rule()
        def remove_all(self):
            self._do(["remove_all"])

        @invariant()
        def contents_agree(self):
            self.ls.check_contents()

        def teardown(self):
            ctx.acc.cls("stateful_ops", len(self.ls.log))
            if classify is not None and self.ls.log and classify(self.ls, self.ls.log):
                ctx.acc.nt(self.ls.log)
                ctx.acc.cls("stateful_nontrivial_histories")
            self.ls.close()
            shutil.rmtree(self.ls.dir, ignore_errors=True)

    return Machine


def leaf_about(p, kind, op):
    """A comparison leaf about a point that really was inserted."""
    if kind == "tag" and p["tags"]:
        k = sorted(p["tags"])[0]
        return ["leaf", "tag", [["key", k]], ["cmp", "==" if op in ("==", "<", "<=") else "!=", p["tags"][k]]]
    if kind == "field" and p["fields"]:
        k = sorted(p["fields"])[0]
        return ["leaf", "field", [["key", k]], ["cmp", op, p["fields"][k]]]
    if kind == "meas":
        return ["leaf", "meas", [], ["cmp", "==" if op in ("==", ">", ">=") else "!=", p["measurement"]]]
    return ["leaf", "time", [], ["cmp", op, p["time"].astimezone(gen.OFFSETS[len(p["tags"]) % len(gen.OFFSETS)])]]


def run(ctx, n_examples, steps, hooks=(), classify=None):
    """Run the machine; returns the Violation of the first failing execution (not shrunk: the caller minimises the log) or None."""
    holder = {}
    Machine = hypothesis.seed(ctx.seed)(make_machine(ctx, hooks, holder, classify))
    try:
        run_state_machine_as_test(
            Machine,
            settings=settings(max_examples=n_examples, stateful_step_count=steps, database=None, deadline=None, derandomize=False, report_multiple_bugs=False,
                              print_blob=False, phases=[Phase.generate], suppress_health_check=list(HealthCheck)),
        )
    except core.Violation as v:
        return v
    return None
