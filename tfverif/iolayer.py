"""Run-time I/O layer: for the duration of one case the names `open`, `NamedTemporaryFile`, `shutil` and `os` inside the
module namespace of tinyflux.storages are rebound to recording proxies.  No source hook is needed.

Every call that can touch the disk becomes a numbered *step* (kind, role): text-level write/flush/truncate/seek/read/readline/next/close on the
primary or temporary handle, open, mktemp, os.fsync/replace/rename/remove/truncate, and shutil.copy executed as its real sub-steps
(open-and-truncate destination, write first half, write rest, close).
Modes: record (which calls), snapshot (disk image of the database file before every step = what SIGKILL at that instant leaves behind,
user-space buffers being lost), fault (raise OSError at step k before the call, or after it took effect), kill (SIGKILL self at step k).
A sys.addaudithook listener notes file-system events raised from tinyflux frames that did not pass through a proxy (blind spots).
"""
import builtins
import os as _os
import shutil as _shutil
import signal
import sys
import tempfile as _tempfile

_ACTIVE = {"world": None, "in_proxy": 0}
_HOOKED = [False]
_TF_DIR = [None]
WATCH = {"open", "os.rename", "os.remove", "os.truncate", "shutil.copyfile", "tempfile.mkstemp", "os.link", "os.symlink"}


def _audit(event, args):
    w = _ACTIVE["world"]
    if w is None or event not in WATCH or _ACTIVE["in_proxy"]:
        return
    if event == "open" and args and isinstance(args[0], str) and not args[0].startswith(w.watch_prefixes):
        return
    f = sys._getframe(1)
    depth = 0
    while f is not None and depth < 25:
        fn = f.f_code.co_filename
        if _TF_DIR[0] and fn.startswith(_TF_DIR[0]):
            w.blind_spots.append((event, repr(args)[:120], "%s:%d" % (_os.path.basename(fn), f.f_lineno)))
            return
        f = f.f_back
        depth += 1


class World:
    def __init__(self, dbpath, mode="record", fault_at=None, fault_when="before", fault_errno=28, kill_at=None):
        self.dbpath = _os.path.abspath(dbpath)
        self.mode = mode
        self.events = []  # (kind, role)
        self.snaps = []  # disk image before each step (snapshot mode)
        self.written = []  # (step index, role, text) for write steps
        self.fault_at = fault_at
        self.fault_when = fault_when
        self.fault_errno = fault_errno
        self.kill_at = kill_at
        self.armed = True
        self.fired = None
        self.blind_spots = []
        self.watch_prefixes = (_os.path.dirname(self.dbpath), _tempfile.gettempdir())

    def disk(self):
        _ACTIVE["in_proxy"] += 1  # the harness's own read must not be mistaken for I/O by tinyflux
        try:
            with builtins.open(self.dbpath, "rb") as f:
                return f.read()
        except FileNotFoundError:
            return None
        finally:
            _ACTIVE["in_proxy"] -= 1

    def step(self, kind, role, do, text=None):
        if not self.armed:
            return self._raw(do)
        idx = len(self.events)
        self.events.append((kind, role))
        if text is not None:
            self.written.append((idx, role, text))
        if self.mode == "snapshot":
            self.snaps.append(self.disk())
        if self.kill_at == idx:
            _os.kill(_os.getpid(), signal.SIGKILL)
        if self.fault_at == idx and self.fault_when == "before":
            self.fired = (idx, kind, role, "before")
            raise OSError(self.fault_errno, "injected %s before step %d %s/%s" % (_os.strerror(self.fault_errno), idx, role, kind))
        r = self._raw(do)
        if self.fault_at == idx and self.fault_when == "after":
            self.fired = (idx, kind, role, "after")
            raise OSError(5, "injected EIO after step %d %s/%s took effect" % (idx, role, kind))
        return r

    def _raw(self, do):
        _ACTIVE["in_proxy"] += 1
        try:
            return do()
        finally:
            _ACTIVE["in_proxy"] -= 1


class FileProxy:
    def __init__(self, real, world, role):
        object.__setattr__(self, "_r", real)
        object.__setattr__(self, "_w", world)
        object.__setattr__(self, "_role", role)

    def __getattr__(self, n):
        return getattr(self._r, n)

    def write(self, s):
        return self._w.step("write", self._role, lambda: self._r.write(s), text=s)

    def writelines(self, lines):
        for line in lines:
            self.write(line)

    def flush(self):
        return self._w.step("flush", self._role, lambda: self._r.flush())

    def truncate(self, *a):
        return self._w.step("truncate", self._role, lambda: self._r.truncate(*a))

    def seek(self, *a):
        return self._w.step("seek", self._role, lambda: self._r.seek(*a))

    def close(self):
        return self._w.step("close", self._role, lambda: self._r.close())

    def read(self, *a):
        return self._w.step("read", self._role, lambda: self._r.read(*a))

    def readline(self, *a):
        return self._w.step("readline", self._role, lambda: self._r.readline(*a))

    def readlines(self, *a):
        return self._w.step("read", self._role, lambda: self._r.readlines(*a))

    def __iter__(self):
        return self

    def __next__(self):
        return self._w.step("next", self._role, lambda: next(self._r))

    def __enter__(self):
        return self

    def __exit__(self, *a):
        self.close()


def install(world):
    import tinyflux
    import tinyflux.storages as S

    _TF_DIR[0] = _os.path.dirname(_os.path.abspath(tinyflux.__file__)) + _os.sep
    if not _HOOKED[0]:
        sys.addaudithook(_audit)
        _HOOKED[0] = True

    def role_of(path):
        try:
            p = _os.path.abspath(_os.fspath(path))
        except TypeError:
            return "other"
        if p == world.dbpath:
            return "primary"
        if p.startswith(_tempfile.gettempdir() + _os.sep) or _os.path.dirname(p) == _os.path.dirname(world.dbpath):
            return "temp"
        return "other"

    def open_p(path, mode="r", *a, **k):
        role = role_of(path)
        real = world.step("open:" + mode, role, lambda: builtins.open(path, mode, *a, **k))
        return FileProxy(real, world, role)

    def ntf_p(*a, **k):
        real = world.step("mktemp", "temp", lambda: _tempfile.NamedTemporaryFile(*a, **k))
        return FileProxy(real, world, "temp")

    class ShutilP:
        def __getattr__(self, n):
            return getattr(_shutil, n)

        def _copy(self, src, dst, label):
            def _read():
                with builtins.open(src, "rb") as f:
                    return f.read()

            data = world._raw(_read)
            role = role_of(dst)
            out = world.step(label + ".open", role, lambda: builtins.open(dst, "wb", buffering=0))
            h = len(data) // 2
            try:
                world.step(label + ".write1", role, lambda: out.write(data[:h]))
                world.step(label + ".write2", role, lambda: out.write(data[h:]))
            except BaseException:
                world._raw(out.close)
                raise
            world.step(label + ".close", role, lambda: out.close())
            return dst

        def copy(self, src, dst):
            self._copy(src, dst, "copy")
            world._raw(lambda: _shutil.copymode(src, dst))
            return dst

        def copyfile(self, src, dst):
            return self._copy(src, dst, "copy")

        def copy2(self, src, dst):
            self._copy(src, dst, "copy")
            world._raw(lambda: _shutil.copystat(src, dst))
            return dst

        def move(self, src, dst):
            return world.step("move", role_of(dst), lambda: _shutil.move(src, dst))

    class OsP:
        def __getattr__(self, n):
            return getattr(_os, n)

        def fsync(self, fd):
            return world.step("fsync", "fd", lambda: _os.fsync(fd))

        def replace(self, a, b):
            return world.step("replace", role_of(b), lambda: _os.replace(a, b))

        def rename(self, a, b):
            return world.step("rename", role_of(b), lambda: _os.rename(a, b))

        def remove(self, a):
            return world.step("remove", role_of(a), lambda: _os.remove(a))

        def unlink(self, a):
            return world.step("remove", role_of(a), lambda: _os.unlink(a))

        def truncate(self, a, n):
            return world.step("os.truncate", role_of(a), lambda: _os.truncate(a, n))

    class TempfileP:
        def __getattr__(self, n):
            return getattr(_tempfile, n)

        NamedTemporaryFile = staticmethod(ntf_p)

    import io as _io

    class IoP:
        def __getattr__(self, n):
            return getattr(_io, n)

        open = staticmethod(open_p)

    osp, shp, tfp = OsP(), ShutilP(), TempfileP()
    # Rebind, in every loaded tinyflux module, each global that is bound to a file-system entry point - whether the module imported
    # the package (`import os`), an alias of it, or single functions (`from os import replace`) - so that moving the I/O code around
    # or changing its import style does not blind the layer.  (Anything else that slips through is reported by the audit hook.)
    by_identity = {
        id(_os): osp, id(_shutil): shp, id(_tempfile): tfp, id(_io): IoP(),
        id(builtins.open): open_p, id(_tempfile.NamedTemporaryFile): ntf_p,
        id(_os.fsync): osp.fsync, id(_os.replace): osp.replace, id(_os.rename): osp.rename, id(_os.remove): osp.remove, id(_os.unlink): osp.unlink,
        id(_os.truncate): osp.truncate,
        id(_shutil.copy): shp.copy, id(_shutil.copyfile): shp.copyfile, id(_shutil.copy2): shp.copy2, id(_shutil.move): shp.move,
    }
    _SAVED.clear()
    for name, mod in list(sys.modules.items()):
        if mod is None or not (name == "tinyflux" or name.startswith("tinyflux.")):
            continue
        for gname, val in list(vars(mod).items()):
            proxy = by_identity.get(id(val))
            if proxy is not None:
                _SAVED.append((mod, gname, val))
                setattr(mod, gname, proxy)
        if "open" not in vars(mod):  # modules calling the builtin
            _SAVED.append((mod, "open", _MISSING))
            mod.open = open_p
    _ACTIVE["world"] = world


_SAVED = []
_MISSING = object()


def uninstall():
    _ACTIVE["world"] = None
    for mod, gname, val in reversed(_SAVED):
        if val is _MISSING:
            vars(mod).pop(gname, None)
        else:
            setattr(mod, gname, val)
    _SAVED.clear()


class installed:
    def __init__(self, world):
        self.world = world

    def __enter__(self):
        install(self.world)
        return self.world

    def __exit__(self, *a):
        uninstall()
