"""Reference model of a TinyFlux database: a Python list of point dicts in insertion order.

A model point is dict(time=aware UTC datetime, measurement=str, tags=dict, fields=dict).
Never imports tinyflux.  Semantics are taken from the documentation (docs/source/*.rst) and from the
statements of the properties, not from the implementation.
"""
import copy
from datetime import timezone

from . import qast

UTC = timezone.utc


def mk(time, measurement="_default", tags=None, fields=None):
    return {"time": time, "measurement": measurement, "tags": dict(tags or {}), "fields": dict(fields or {})}


def norm_time(t):
    """Aware -> same instant in UTC; naive -> local time of the process (docs/time.rst)."""
    return t.astimezone(UTC)


def from_point(p):
    """tinyflux Point -> model point (plain copy of its four attributes)."""
    return {"time": p.time, "measurement": p.measurement, "tags": dict(p.tags), "fields": dict(p.fields)}


def selected(q, m, p):
    return (m is None or p["measurement"] == m) and (q is None or qast.ref(q, p))


class Model:
    def __init__(self, points=None):
        self.points = list(points or [])

    def copy(self):
        return Model(copy.deepcopy(self.points))

    # ---- writes
    def insert(self, p, measurement=None):
        p = copy.deepcopy(p)
        if measurement is not None:
            p["measurement"] = measurement
        p["time"] = norm_time(p["time"])
        self.points.append(p)

    def remove(self, q, m=None):
        keep = [p for p in self.points if not selected(q, m, p)]
        n = len(self.points) - len(keep)
        self.points = keep
        return n

    def remove_all(self):
        self.points = []

    def update(self, q, m=None, time=None, measurement=None, tags=None, fields=None, unset_tags=None, unset_fields=None):
        """Arguments are static values or python callables; returns number of points whose content changed."""
        changed = 0
        new_points = []
        for p in self.points:
            if not selected(q, m, p):
                new_points.append(p)
                continue
            n = copy.deepcopy(p)
            if time is not None:
                n["time"] = norm_time(time(n["time"]) if callable(time) else time)
            if measurement is not None:
                n["measurement"] = measurement(n["measurement"]) if callable(measurement) else measurement
            if tags is not None:
                n["tags"].update(tags(copy.deepcopy(p["tags"])) if callable(tags) else tags)
            if fields is not None:
                n["fields"].update(fields(copy.deepcopy(p["fields"])) if callable(fields) else fields)
            for k in [unset_tags] if isinstance(unset_tags, str) else (unset_tags or []):
                n["tags"].pop(k, None)
            for k in [unset_fields] if isinstance(unset_fields, str) else (unset_fields or []):
                n["fields"].pop(k, None)
            if n != p:
                changed += 1
            new_points.append(n)
        self.points = new_points
        return changed

    # ---- reads
    def matches(self, q, m=None):
        return [p for p in self.points if selected(q, m, p)]

    def of(self, m=None):
        return [p for p in self.points if m is None or p["measurement"] == m]

    def get_measurements(self):
        return sorted({p["measurement"] for p in self.points})

    def get_tag_keys(self, m=None):
        return sorted({k for p in self.of(m) for k in p["tags"]})

    def get_field_keys(self, m=None):
        return sorted({k for p in self.of(m) for k in p["fields"]})

    def get_tag_values(self, tag_keys=(), m=None):
        out = {k: set() for k in tag_keys}
        for p in self.of(m):
            for k, v in p["tags"].items():
                if tag_keys and k not in out:
                    continue
                out.setdefault(k, set()).add(v)
        return {k: sorted(v, key=lambda x: (x is None, x or "")) for k, v in out.items()}

    def get_field_values(self, key, m=None):
        return [p["fields"][key] for p in self.of(m) if key in p["fields"]]

    def get_timestamps(self, m=None):
        return [p["time"] for p in self.of(m)]


def time_sorted(points):
    return sorted(points, key=lambda p: p["time"])  # sorted() is stable: ties keep insertion order


def select_values(points, keys):
    """Expected return of db.select(keys, ...) for the given matched points."""
    single = isinstance(keys, str)
    ks = [keys] if single else list(keys)
    out = []
    for p in points:
        row = []
        for k in ks:
            if k == "time":
                row.append(p["time"])
            elif k == "measurement":
                row.append(p["measurement"])
            elif k.startswith("tags."):
                row.append(p["tags"].get(k[5:]))
            else:
                row.append(p["fields"].get(k[7:]))
        out.append(row[0] if len(ks) == 1 else tuple(row))
    return out
