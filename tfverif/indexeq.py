"""C06 oracle: a live index that is flagged valid must answer exactly like an index freshly built from storage."""
from datetime import timedelta

from . import gen, qast
from .universe import K, L

_VOCAB = None


def vocab():
    global _VOCAB
    if _VOCAB is None:
        qs = []
        for t in gen.TIMES:
            for op in qast.OPS:
                qs.append(L("time", [], ["cmp", op, t]))
        for t in (gen.TIMES[0], gen.TIMES[5]):
            for d in (-1, 1):
                for op in ("<", "<=", "==", ">="):
                    qs.append(L("time", [], ["cmp", op, t + timedelta(microseconds=d)]))
        qs += [
            L("time", [["map", "year"]], ["test", "in", [2020]]),
            L("tag", [K("a")], ["cmp", "==", "x"]), L("tag", [K("a")], ["cmp", "==", None]), L("tag", [K("a")], ["cmp", "!=", "x"]), L("tag", [K("b")], ["exists"]),
            L("tag", [K("t x")], ["cmp", "!=", ""]), L("tag", [K("a")], ["matches", "x", 2]), L("tag", [K("a")], ["cmp", "==", "upd"]), L("tag", [K("a")], ["noop"]),
            L("field", [K("a")], ["cmp", "==", 1]), L("field", [K("a")], ["cmp", "<", 2]), L("field", [K("f")], ["exists"]), L("field", [K("_t")], ["cmp", ">=", 0]),
            L("field", [K("a"), ["map", "double"]], ["cmp", "==", 2]), L("field", [K("f")], ["cmp", "==", 7]),
            L("meas", [], ["cmp", "==", "m1"]), L("meas", [], ["cmp", "!=", "m1"]), L("meas", [], ["matches", "m", 0]), L("meas", [], ["cmp", "==", "m2"]),
        ]
        a, b, c = L("tag", [K("a")], ["cmp", "==", "x"]), L("time", [], ["cmp", ">=", gen.TIMES[0]]), L("field", [K("a")], ["cmp", "==", 1])
        qs += [["and", a, b], ["or", a, c], ["not", a], ["not", b], ["and", ["not", a], b], ["or", ["not", b], ["and", a, c]], ["and", L("meas", [], ["cmp", "==", "m1"]), b]]
        _VOCAB = [(q, qast.build(q)) for q in qs]
    return _VOCAB


def compare(db, points=None):
    """Returns None if equivalent, else a message. Precondition: db.index.valid.
    points: what storage holds, observed passively by the caller (default: read through the storage object)."""
    from tinyflux.index import Index

    live = db.index
    if points is None:
        points = db.storage.read()
    fresh = Index()
    fresh.build(points)
    if len(live) != len(fresh):
        return "len(index) = %d, rebuilt index has %d" % (len(live), len(fresh))
    if live.empty != fresh.empty:
        return "index.empty = %r, rebuilt %r" % (live.empty, fresh.empty)
    if not fresh.empty and live.latest_time != fresh.latest_time:
        return "latest_time = %r, rebuilt %r" % (live.latest_time, fresh.latest_time)
    for q, bq in vocab():
        try:
            a = live.search(bq).items
        except Exception as e:
            return "live index search(%s) raised %r" % (qast.show(q), e)
        b = fresh.search(bq).items
        if a != b:
            return "index.search(%s) = %s, rebuilt index gives %s" % (qast.show(q), sorted(a), sorted(b))
    ms = [None] + sorted(fresh.get_measurements()) + ["absent"]
    if live.get_measurements() != fresh.get_measurements():
        return "get_measurements = %r, rebuilt %r" % (live.get_measurements(), fresh.get_measurements())
    for m in ms:
        for name, args in (("get_tag_keys", (m,)), ("get_field_keys", (m,)), ("get_tag_values", ([], m)), ("get_tag_values", (["a", "zz"], m)), ("get_field_values", ("a", m)), ("get_field_values", ("f", m)), ("get_timestamps", (m,))):
            x, y = getattr(live, name)(*args), getattr(fresh, name)(*args)
            if x != y:
                return "%s%r = %r, rebuilt index gives %r" % (name, args, x, y)
    return None


N_COMPARISONS = None


def n_per_compare():
    return len(vocab()) + 10
