"""Shared body of the history-based checks (C01, C02, C03, C06, C07, C10, C11): Hypothesis-generated histories
run through lockstep.Lockstep; the module-specific parts are the operation profile, extra per-step invariants
and the rule that says which histories count as non-trivial."""
import os
import shutil

from hypothesis import strategies as st

from . import core, gen, gen_ops, lockstep, qast


def events_of(ls):
    return ls.flags


def run_history(ops, ctx, hooks=(), configs=None, pre=(), post=()):
    ls = lockstep.Lockstep(ctx, configs=configs)
    ls.step_hooks = list(hooks)
    ls.pre_hooks = list(pre)
    ls.post_hooks = list(post)
    try:
        ls.run(ops)
    finally:
        shutil.rmtree(ls.dir, ignore_errors=True)
    return ls


def summarize(ops, limit=12):
    """Readable form of a history for evidence samples."""
    out = []
    for op in ops[:limit]:
        k = op[0]
        if k == "insert":
            out.append("insert(%s@%s via %s)" % (op[1]["measurement"], op[1]["time"].isoformat()[:26], op[4]))
        elif k == "insert_multiple":
            out.append("insert_multiple(%d pts %s via %s%s)" % (len(op[1]), op[3], op[4], " bad@%s" % op[5] if op[5] is not None else ""))
        elif k in ("remove_hit", "probe_hit", "update_hit"):
            out.append("%s(point#%d %s op%d comb%d with %s, m=%r%s)" % (k, op[1][0], op[1][1], op[1][2], op[1][3], qast.show(op[2]), op[3], ", %s" % {s_: (v if not hasattr(v, "isoformat") else v.isoformat()) for s_, v in op[4].items()} if k == "update_hit" else ""))
        elif k == "insert_stamped":
            out.append("insert_stamped(%d x %s without time via %s%s)" % (op[2], op[1]["measurement"], op[3], " + non-Point" if op[4] else ""))
        elif k == "probe_twin":
            out.append("probe_twin(%s then %s, m=%r via %s)" % (qast.show(op[1]), qast.show(op[2]), op[3], op[-1]))
        elif k in ("remove", "probe"):
            out.append("%s(%s, m=%r via %s)" % (k, qast.show(op[1]), op[2], op[-1]))
        elif k == "update":
            out.append("update(%s, m=%r, %s via %s)" % (qast.show(op[1]), op[2], {s: (v if not hasattr(v, "isoformat") else v.isoformat()) for s, v in op[3].items()}, op[4]))
        elif k == "getters":
            out.append("getters(m=%r, keys=%r, field=%r via %s)" % (op[1], op[2], op[3], op[4]))
        else:
            out.append("%s(%s)" % (k, ", ".join(repr(x) for x in op[1:] if not isinstance(x, list))))
    if len(ops) > limit:
        out.append("... +%d ops" % (len(ops) - limit))
    return out


def make_run_shard(profile, classify, hooks=(), bulk_share=0.0, max_ops_quick=25, max_ops_thorough=60, pre=(), post=(), configs=None):
    def run_shard(spec, ctx):
        acc = ctx.acc
        # every third shard runs with a local time zone that is not UTC (all generated times are aware, so the zone of the
        # process must not matter to anything the database stores or returns)
        import time as _time

        os.environ["TZ"] = "Asia/Kolkata" if ctx.shard_index % 3 == 1 else "UTC"
        _time.tzset()
        acc.cls("local_tz_" + os.environ["TZ"])
        max_ops = spec.get("max_ops", max_ops_quick)
        strat = gen_ops.history(spec.get("profile", profile), max_ops)
        if spec.get("bulk"):
            strat = gen_ops.bulk_history(spec.get("bulk_points", 25))

        def check(ops):
            ls = run_history(ops, ctx, hooks, configs=configs, pre=pre, post=post)
            acc.cls("histories")
            acc.cls("ops", len(ops))
            for f in ls.flags:
                acc.cls("hist:" + f)
            if classify(ls, ops):
                acc.nt(ops)
                acc.cls("nontrivial_histories")
                acc.sample(summarize(ops), cap=2, every=53)

        # Hypothesis's own shrinker needs minutes on histories; the first failure is minimised by a bounded
        # delta-debugging pass over the operation list instead (each candidate is re-executed from scratch).
        v = core.hyp_search(check, strat, ctx.seed, spec["n"], shrink=False)
        if v is not None:
            raise minimize(v, ctx, hooks, pre=pre, post=post, configs=configs)

    return run_shard


def minimize(v, ctx, hooks, budget=120, pre=(), post=(), configs=None):
    ops = list(v.case["ops"])
    best = v

    def fails(cand):
        try:
            run_history(cand, core.Ctx("minimize", 0, ctx.known, ctx.scratch, 0), hooks, configs=configs, pre=pre, post=post)
        except core.Violation as w:
            return w if w.sub == v.sub else None
        except Exception:
            return None
        return None

    chunk = max(1, len(ops) // 2)
    while chunk >= 1 and budget > 0:
        i = 0
        changed = False
        while i < len(ops) - 1 and budget > 0:  # the failing (last) operation is kept
            cand = ops[:i] + ops[min(i + chunk, len(ops) - 1):]
            budget -= 1
            w = fails(cand)
            if w is not None:
                ops = list(w.case["ops"])
                best = w
                changed = True
            else:
                i += chunk
        if chunk == 1 and not changed:
            break
        chunk = max(1, chunk // 2) if chunk > 1 else (1 if changed else 0)
    return best


def make_replay(hooks=(), configs=None):
    def replay(sub, case, ctx):
        run_history(case["ops"], ctx, hooks, configs=configs)

    return replay


def std_shards(tier, n_quick, n_thorough, max_ops_quick=25, max_ops_thorough=60, bulk=0):
    n = 16
    out = []
    for i in range(n):
        sp = {"n": n_quick if tier == "quick" else n_thorough, "max_ops": max_ops_quick if tier == "quick" else (max_ops_thorough if i % 2 else max_ops_quick)}
        if i < bulk:
            sp["bulk"] = True
            if tier == "thorough" and i % 2 == 1:
                # larger data sets: 50-150 points (index structures with many entries per key, long runs of equal timestamps)
                sp["bulk_points"] = 150
                sp["n"] = max(20, sp["n"] // 12)
        out.append(sp)
    return out
