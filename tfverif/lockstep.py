"""Lock-step executor: one generated history applied to the reference model and to four real databases
({CSV, memory} x {auto_index on, off}); every return value and the full contents are compared after every step.

A history is a plain JSON-able list of operations (see gen_ops.py); state-dependent details (clamping an
"in-order" insert to the latest time, choosing which selected point a callable raises on) are resolved
deterministically at execution time, so a history replays without Hypothesis.
"""
import copy
import os
import sys
from datetime import timedelta

from . import gen, model, qast
from .core import Violation

CONFIGS = [("mem", True), ("mem", False), ("csv", True), ("csv", False)]


CLOCK = gen.T0 + timedelta(days=200, seconds=7, microseconds=123456)  # "now" for histories: later than some pool times, earlier than others


class frozen_clock:
    """The harness owns the clock: while a history runs, `datetime.now()` inside tinyflux.database returns CLOCK, so that the
    time stamped on points inserted without one is known to the model.  isinstance checks against the rebound name keep working."""

    def __enter__(self):
        import datetime as _dt

        import tinyflux.database as D

        real = _dt.datetime

        class _Meta(type):
            def __instancecheck__(cls, obj):
                return isinstance(obj, real)

        class FrozenDatetime(real, metaclass=_Meta):
            @classmethod
            def now(cls, tz=None):
                return CLOCK if tz is None else CLOCK.astimezone(tz)

            @classmethod
            def utcnow(cls):
                return CLOCK.astimezone(_dt.timezone.utc).replace(tzinfo=None)

        class DatetimeModuleProxy:
            """Stands in for the `datetime` module (under whatever alias a tinyflux module imported it)."""

            datetime = FrozenDatetime

            def __getattr__(self, n):
                return getattr(_dt, n)

        # tinyflux.database is where points are stamped; any other tinyflux module that binds the class (or the datetime module)
        # and asks it for the current time is covered as well, so that moving the stamping code between modules, or changing the
        # import style, does not blind the harness
        self._saved = []
        modproxy = DatetimeModuleProxy()
        for name, mod in list(sys.modules.items()):
            if mod is None or not name.startswith("tinyflux."):
                continue
            if mod is not D:
                try:
                    with open(mod.__file__) as f:
                        src = f.read()
                except (OSError, TypeError, AttributeError):
                    continue
                if ".now(" not in src and ".utcnow(" not in src:
                    continue
            for gname, val in list(vars(mod).items()):
                if val is real:
                    self._saved.append((mod, gname, val))
                    setattr(mod, gname, FrozenDatetime)
                elif val is _dt:
                    self._saved.append((mod, gname, val))
                    setattr(mod, gname, modproxy)
        self._self_test()
        return self

    def _self_test(self):
        """Is the clock really under control?  If tinyflux obtains the time in a way the harness does not own, histories
        go without time-less inserts (counted) instead of comparing against a time the model cannot know."""
        from tinyflux import Point, TinyFlux
        from tinyflux.storages import MemoryStorage

        global CLOCK_CONTROLLED
        try:
            db = TinyFlux(storage=MemoryStorage)
            p = Point()
            db.insert(p)
            got = [x.time for x in iter(db)]
            CLOCK_CONTROLLED = got == [CLOCK]
        except Exception:
            CLOCK_CONTROLLED = True  # not this helper's business: the checks themselves will report what is wrong

    def __exit__(self, *a):
        for mod, gname, old in reversed(self._saved):
            setattr(mod, gname, old)


CLOCK_CONTROLLED = True


class CallableRaised(Exception):
    """Raised on purpose by generated user callables."""


class CallableStop(CallableRaised, StopIteration):
    """A generated callable's exception that is a StopIteration as well."""


# ---- registry of update callables (pure functions of the old value; used identically by model and databases)
def u_shift_1h(t):
    return t + timedelta(hours=1)


def u_time_same(t):
    return t


def u_time_const(t):
    return gen.T0 + timedelta(days=1)


def u_time_other_zone(t):
    return t.astimezone(gen.OFFSETS[1])  # same instant, other offset: content unchanged


def u_meas_suffix(m):
    return m + "_u"


def u_meas_const(m):
    return "m2"


def u_meas_m1(m):
    return "m1"


def u_tags_const(tags):
    return {"a": "upd"}


def u_tags_echo(tags):
    return tags


def u_tags_inplace(tags):
    # edits the mapping it was handed and returns that same object
    tags["a"] = "inp"
    tags.pop("b", None)
    return tags


def u_fields_inplace(fields):
    fields["f"] = 9
    return fields


def u_tags_upper(tags):
    return {k: v.upper() for k, v in tags.items() if isinstance(v, str)}


def u_tags_empty(tags):
    return {}


def u_fields_scale(fields):
    return {k: v * 2 for k, v in fields.items() if isinstance(v, (int, float)) and v == v and abs(v) != float("inf")}


def u_fields_const(fields):
    return {"f": 7}


def u_fields_echo(fields):
    return fields


def u_fields_a1(fields):
    return {"a": 1}


def u_fields_a0(fields):
    return {"a": 0}


UPD = {
    "time": {"shift_1h": u_shift_1h, "time_same": u_time_same, "time_const": u_time_const, "time_other_zone": u_time_other_zone},
    "measurement": {"meas_suffix": u_meas_suffix, "meas_const": u_meas_const, "meas_m1": u_meas_m1},
    "tags": {"tags_const": u_tags_const, "tags_echo": u_tags_echo, "tags_upper": u_tags_upper, "tags_empty": u_tags_empty, "tags_inplace": u_tags_inplace},
    "fields": {"fields_scale": u_fields_scale, "fields_const": u_fields_const, "fields_echo": u_fields_echo, "fields_a1": u_fields_a1, "fields_a0": u_fields_a0, "fields_inplace": u_fields_inplace},
}
BAD_VALUES = {
    # what a misbehaving callable returns, per slot
    "time": [5, "2020-01-01", None],
    "measurement": [5, None, b"m"],
    "tags": [{"a": 5}, {5: "x"}, "notadict", {"a": b"x"}, {"a": True}],
    "fields": [{"a": "str"}, {5: 1}, [1], {"a": True}, {"a": [1]}, {"a": False}],
}


def make_callable(slot, spec):
    """spec = ["fn", name] | ["fn_raise", j, name] | ["fn_invalid", j, name, bad_index]; returns (callable, probe) -
    probe() tells how many times it was called."""
    name = spec[-1] if spec[0] != "fn_invalid" else spec[2]
    base = UPD[slot][name]
    state = {"n": 0}

    def f(x):
        state["n"] += 1
        if spec[0] == "fn_raise" and state["n"] == spec[1]:
            # on even calls the exception is also a StopIteration (e.g. next() on an exhausted iterator inside the user's function):
            # code that runs user callbacks inside map() / a generator must not take it for the end of the iteration
            raise (CallableStop if spec[1] % 2 == 0 else CallableRaised)("generated callable raises on call %d" % spec[1])
        if spec[0] == "fn_invalid" and state["n"] == spec[1]:
            return copy.deepcopy(BAD_VALUES[slot][spec[3] % len(BAD_VALUES[slot])])
        return base(x)

    return f, lambda: state["n"]


class Real:
    def __init__(self, kind, auto, d, kwargs=None, label=""):
        self.kind, self.auto = kind, auto
        self.kwargs = dict(kwargs or {})
        self.name = "%s%s%s" % (kind, "+idx" if auto else "-idx", label)
        self.path = os.path.join(d, "".join(ch if ch.isalnum() else {"+": "P", "-": "M"}.get(ch, "_") for ch in self.name) + ".csv")
        self.handles = {}
        self.open()

    def open(self):
        from tinyflux import TinyFlux
        from tinyflux.storages import MemoryStorage

        if self.kind == "csv":
            self.db = TinyFlux(self.path, auto_index=self.auto, **self.kwargs)
        else:
            self.db = TinyFlux(storage=MemoryStorage, auto_index=self.auto)
        self.handles = {}

    def handle(self, name, old):
        if old and name in self.handles:
            return self.handles[name]
        h = self.db.measurement(name)
        self.handles.setdefault(name, h)
        return h

    def contents(self):
        """Contents as the live object reports them (a read operation: flushes buffers, may rebuild the index, moves the file position)."""
        return [model.from_point(p) for p in self.db.all(sorted=False)]

    NON_DIALECT = ("flush_on_insert", "encoding", "access_mode", "create_dirs", "newline")

    def passive(self):
        return self.kind == "mem" or self.kwargs.get("flush_on_insert", True)

    def observe(self):
        """Contents observed WITHOUT operating the database object, so that the harness does not disturb the state under test:
        memory: plain iteration (no read decorator, no reindex); CSV with flush_on_insert: the file decoded by the independent reader."""
        if self.kind == "mem":
            return [model.from_point(p) for p in iter(self.db)]
        if self.kwargs.get("flush_on_insert", True):
            from . import csvref

            with open(self.path, "rb") as f:
                data = f.read()
            return csvref.decode(data, self.kwargs.get("encoding"), {k: v for k, v in self.kwargs.items() if k not in self.NON_DIALECT})
        return self.contents()

    def do_close(self):
        """Close the database the way the history says: explicitly, or by leaving a `with` block (documented as equivalent)."""
        if getattr(self, "exit_via_context", False):
            self.db.__exit__(None, None, None)
        else:
            self.db.close()

    def close(self):
        try:
            self.do_close()
        except Exception:
            pass


def pts(points):
    return [model.from_point(p) for p in points]


class Lockstep:
    def __init__(self, ctx, opts=None, configs=None):
        self.ctx = ctx
        self.opts = opts or {}
        self.dir = ctx.fresh_dir()
        self.model = model.Model()
        self.reals = [Real(c[0], c[1], self.dir, *(c[2:])) for c in (configs or CONFIGS)]
        self.log = []
        self.flags = set()  # history features seen so far
        self.last_probe = None
        self.last_query = None
        self.step_hooks = []
        self.defer_contents = True
        self.pre_hooks = []
        self.post_hooks = []

    # ---- plumbing
    def fail(self, sub, real, msg):
        raise Violation(sub, {"ops": self.log, "config": real.name if real else None}, "[%s] step %d %s: %s" % (real.name if real else "-", len(self.log), self.log[-1][0] if self.log else "", msg))

    def call(self, real, sub, fn, *a, **k):
        """A call that must not raise."""
        try:
            return fn(*a, **k)
        except Exception as e:
            import traceback

            tb = traceback.extract_tb(e.__traceback__)
            where = ["%s:%d %s" % (os.path.basename(f.filename), f.lineno, f.name) for f in tb if "tinyflux" in f.filename][-2:]
            self.fail(sub + "-raised", real, "unexpected %s: %s at %s" % (type(e).__name__, str(e)[:160], where))

    def expect_raise(self, real, sub, fn, excs):
        try:
            r = fn()
        except excs as e:
            return e
        except Exception as e:
            self.fail(sub, real, "raised %s(%s), expected one of %s" % (type(e).__name__, str(e)[:200], [x.__name__ for x in excs]))
        self.fail(sub, real, "returned %r, expected an exception (%s)" % (r, [x.__name__ for x in excs]))

    def close(self):
        for r in self.reals:
            r.close()

    # ---- the invariant after every step
    def check_contents(self, what="contents", through_api=False, passive_only=False):
        exp = self.model.points
        for real in self.reals:
            if not through_api and not real.passive():
                # this configuration can only be observed by reading through the API, which disturbs it (flushes buffers):
                # do so on every third step only, so that runs of consecutive operations execute unobserved
                if passive_only or len(self.log) % 3 != 0:
                    continue
            got = self.call(real, what, real.contents if through_api else real.observe)
            if got != exp:
                self.fail(what, real, "all(sorted=False) differs from the model: got %d points %s, expected %d points %s" % (len(got), brief(got), len(exp), brief(exp)))
        self.ctx.acc.ev(len(self.reals))

    READS = ("probe", "probe_hit", "probe_twin", "getters")

    def run(self, ops):
        with frozen_clock():
            self._run(ops)

    def _run(self, ops):
        for r in self.reals:
            r.exit_via_context = len(ops) % 2 == 1  # half of the histories close their databases through the context-manager exit
        try:
            for i, op in enumerate(ops):
                self.log.append(op)
                for h in self.pre_hooks:
                    h(self, op)
                getattr(self, "op_" + op[0])(*op[1:])
                for h in self.post_hooks:  # run before anything reads the databases again
                    h(self, op)
                # Contents are observed after every step without operating the database object (Real.observe): a harness read
                # through the API would flush buffers, rebuild an invalid index and move the file position, i.e. mask defects
                # that need "the very next operation" to manifest.  Configurations that cannot be observed passively
                # (flush_on_insert=False) are read through the API, but not right before a read operation of the history.
                nxt = ops[i + 1][0] if i + 1 < len(ops) else None
                final_read = (len(ops) // 2) % 2 == 0
                if not (self.defer_contents and nxt in self.READS and op[0] not in self.READS):
                    # after the last operation of a history that is closed without a final read, only passive observation is allowed
                    self.check_contents(passive_only=(nxt is None and not final_read))
                for h in self.step_hooks:
                    h(self, op)
            # one read through the API closes half of the histories; the other half is closed right after its last operation
            # (a final read would flush whatever the last write left in a buffer)
            if (len(ops) // 2) % 2 == 0:
                self.check_contents("final-contents", through_api=True)
        finally:
            self.close()

    # ---- writes
    def _resolve_time(self, mp, clamp):
        mp = copy.deepcopy(mp)
        if clamp and self.model.points:
            latest = max(p["time"] for p in self.model.points)
            if mp["time"] < latest:
                mp["time"] = latest
        return mp

    def op_insert(self, mp, tz, clamp, via, compact=False):
        mp = self._resolve_time(mp, clamp)
        if self.model.points and mp["time"] < max(p["time"] for p in self.model.points):
            self.flags.add("out_of_order")
        meas = None if via == "db" else mp["measurement"]
        for real in self.reals:
            p = gen.to_point(mp, gen.OFFSETS[tz % len(gen.OFFSETS)])
            if via in ("handle", "old_handle"):
                if tz % 2:
                    p.measurement = "other"  # the handle's name must win
                r = self.call(real, "insert", real.handle(meas, via == "old_handle").insert, p)
            elif via == "db_meas":
                if tz % 2:
                    p.measurement = "other"
                r = self.call(real, "insert", real.db.insert, p, measurement=meas, compact_key_prefixes=compact)
            else:
                r = self.call(real, "insert", real.db.insert, p, compact_key_prefixes=compact)
            if r != 1:
                self.fail("insert-return", real, "insert returned %r" % (r,))
        self.model.insert(mp, meas)
        self.flags.add("insert")

    def op_insert_reuse(self, mp, compact):
        """The caller inserts a Point, edits its tags and fields in place and inserts the same object again (a loop that
        recycles one Point).  Each insert stores what the object held at that moment.  Memory storage keeps the object itself
        (aliasing pinned by the suite, see KF-mem-update-partial), so memory databases are given two separate points."""
        mp = self._resolve_time(mp, True)
        second = copy.deepcopy(mp)
        second["tags"]["a"] = "again"
        second["tags"].pop("b", None)
        second["fields"]["f"] = 5
        for real in self.reals:
            p = gen.to_point(mp)
            self.call(real, "insert", real.db.insert, p, compact_key_prefixes=compact)
            if real.kind == "csv":
                p.tags["a"] = "again"
                p.tags.pop("b", None)
                p.fields["f"] = 5
            else:
                p = gen.to_point(second)
            self.call(real, "insert", real.db.insert, p, compact_key_prefixes=compact)
        self.model.insert(mp, None)
        self.model.insert(second, None)
        self.flags.add("insert")
        self.ctx.acc.cls("insert_reused_point_object")

    def op_insert_stamped(self, mp, n, via, bad_after=False):
        """Insert n points that carry no time (bare Point() with attributes assigned): they must be stamped with the insertion time
        (the frozen CLOCK).  bad_after: a non-Point follows them in the same insert_multiple call, which must raise after storing them."""
        from tinyflux import Point

        if not CLOCK_CONTROLLED:
            self.ctx.acc.cls("insert_stamped_skipped_clock_not_controlled")
            return
        meas = None if via == "db" else mp["measurement"]
        for real in self.reals:
            items = []
            for i in range(n):
                p = Point()
                p.measurement = mp["measurement"]
                p.tags = dict(mp["tags"], n=str(i))
                p.fields = dict(mp["fields"])
                items.append(p)
            if bad_after:
                items.append("not a point")
            target = real.handle(meas, False) if via == "handle" else real.db
            kw = {} if via in ("db", "handle") else {"measurement": meas}
            if n == 1 and not bad_after:
                r = self.call(real, "insert", target.insert, items[0], **kw)
                if r != 1:
                    self.fail("insert-return", real, "insert returned %r" % (r,))
            elif bad_after:
                self.expect_raise(real, "insert_multiple-bad", lambda: target.insert_multiple(items, **kw), (TypeError, ValueError))
            else:
                r = self.call(real, "insert_multiple", target.insert_multiple, items, **kw)
                if r != n:
                    self.fail("insert_multiple-return", real, "returned %r for %d points" % (r, n))
        if self.model.points and CLOCK < max(p["time"] for p in self.model.points):
            self.flags.add("out_of_order")
            self.flags.add("stamped_before_future_point")
        for i in range(n):
            self.model.insert({"time": CLOCK, "measurement": mp["measurement"], "tags": dict(mp["tags"], n=str(i)), "fields": dict(mp["fields"])}, meas)
        if bad_after:
            self.flags.add("raised")
            self.flags.add("raised_mid")
        self.flags.add("insert")
        self.ctx.acc.cls("insert_stamped")

    def op_insert_multiple(self, mps, tz, mode, via, bad_at=None, meas=None):
        """mode: 'inorder' (sorted & clamped), 'asis'; 'asis_recycled': the iterable is a generator that yields one Point object
        again and again, re-filled between the yields (CSV databases; memory storage keeps the objects themselves); 'asis_reading':
        a generator that reads the database it is being inserted into while it is consumed (an "only what is not there yet" filter).
        bad_at: position of a non-Point inside the iterable."""
        mps = [copy.deepcopy(m) for m in mps]
        special = mode if mode in ("asis_recycled", "asis_reading") else None
        if special:
            mode = "asis"
        if mode == "inorder":
            mps.sort(key=lambda m: m["time"])
            mps = [self._resolve_time(m, True) for m in mps]
        else:
            latest = max([p["time"] for p in self.model.points], default=None)
            for m in mps:
                if latest is not None and m["time"] < latest:
                    self.flags.add("out_of_order")
                latest = m["time"] if latest is None else max(latest, m["time"])
        use_meas = meas if via != "db" else None
        # bad_at >= 100: the offending element is a well-formed Point that CSV storage cannot write (a lone surrogate cannot be
        # encoded), i.e. the failure strikes inside the storage layer's append; memory storage accepts such a point, so memory
        # databases are given the points before it only
        unencodable = bad_at is not None and bad_at >= 100
        if unencodable:
            bad_at -= 100
        ok_prefix = mps if bad_at is None else mps[: min(bad_at, len(mps))]
        for real in self.reals:
            items = [gen.to_point(m, gen.OFFSETS[(tz + i) % len(gen.OFFSETS)]) for i, m in enumerate(mps)]
            if unencodable and real.kind != "csv":
                items = items[: len(ok_prefix)]
            elif unencodable:
                from tinyflux import Point

                items.insert(min(bad_at, len(items)), Point(time=max([m["time"] for m in mps] + [p["time"] for p in self.model.points]), measurement="m1", tags={"a": "x\ud800"}, fields={"a": 1}))
            elif bad_at is not None:
                items.insert(min(bad_at, len(items)), {"not": "a point"})
            feed = items
            if special == "asis_recycled" and real.kind == "csv":
                def recycled(_items=items):
                    from tinyflux import Point

                    one = None
                    for it in _items:
                        if not isinstance(it, Point):
                            yield it
                            continue
                        if one is None:
                            one = Point(time=it.time, measurement=it.measurement, tags=dict(it.tags), fields=dict(it.fields))
                        else:
                            one.time, one.measurement = it.time, it.measurement
                            one.tags.clear()
                            one.tags.update(it.tags)
                            one.fields.clear()
                            one.fields.update(it.fields)
                        yield one

                feed = recycled()
                self.ctx.acc.cls("insert_multiple_recycled_point")
            elif special == "asis_reading":
                def reading(_items=items, _db=real.db):
                    for i, it in enumerate(_items):
                        if i >= 1:
                            _db.contains(qast.build(["leaf", "tag", [["key", "zz_never"]], ["exists"]]))
                            if i == 2:
                                len(_db)
                        yield it

                feed = reading()
                self.ctx.acc.cls("insert_multiple_generator_reads_db")
            if via in ("handle", "old_handle"):
                fn = lambda: real.handle(use_meas, via == "old_handle").insert_multiple(iter(feed))  # noqa: E731
            elif via == "db_meas":
                fn = lambda: real.db.insert_multiple(iter(feed), measurement=use_meas)  # noqa: E731
            else:
                fn = lambda: real.db.insert_multiple(feed)  # noqa: E731
            if bad_at is None or (unencodable and real.kind != "csv"):
                r = self.call(real, "insert_multiple", fn)
                if r != len(items):
                    self.fail("insert_multiple-return", real, "returned %r for %d points" % (r, len(items)))
            else:
                self.expect_raise(real, "insert_multiple-bad", fn, (ValueError, OSError) if unencodable else (TypeError, ValueError))
        for m in ok_prefix:
            self.model.insert(m, use_meas)
        if bad_at is not None:
            self.flags.add("raised")
            self.flags.add("raised_mid" if 0 < bad_at < len(mps) + 1 and ok_prefix else "raised_edge")
            if unencodable:
                self.flags.add("raised_in_storage")
        self.flags.add("insert")

    def op_remove(self, q, m, via):
        self.last_remove_query = q
        exp = len(self.model.matches(q, m))
        before = len(self.model.points)
        for real in self.reals:
            served = "idx" if real.db.index.valid else "scan"
            bq = qast.build(q)
            pre = file_bytes(real) if exp == 0 and real.passive() else None  # (with flush_on_insert=False a read may legitimately flush buffered rows)
            if via in ("handle", "old_handle") and m is not None:
                r = self.call(real, "remove", real.handle(m, via == "old_handle").remove, bq)
            elif m is None:
                r = self.call(real, "remove", real.db.remove, bq)
            else:
                r = self.call(real, "remove", real.db.remove, bq, m)
            if r != exp:
                self.fail("remove-return", real, "remove(%s, %r) returned %r, model removes %d of %d (served by %s)" % (qast.show(q), m, r, exp, before, served))
            if exp == 0 and pre is not None and file_bytes(real) != pre:
                self.fail("remove-noop-bytes", real, "a removal that matched nothing changed the file bytes")
            self.ctx.acc.cls("remove_served_" + served)
        self.model.remove(q, m)
        self.flags.add("remove_all_matched" if exp == before and exp else "remove_none" if exp == 0 else "remove_partial")
        self.ctx.acc.cls("remove_" + ("all" if exp == before and exp else "none" if exp == 0 else "partial"))

    def op_drop(self, name, via):
        exp = len(self.model.of(name))
        for real in self.reals:
            if via in ("handle", "old_handle"):
                r = self.call(real, "drop", real.handle(name, via == "old_handle").remove_all)
            else:
                r = self.call(real, "drop", real.db.drop_measurement, name)
            if r != exp:
                self.fail("drop-return", real, "drop_measurement(%r) returned %r, model removes %d" % (name, r, exp))
        self.model.remove(None, name)
        self.flags.add("remove_partial" if 0 < exp < len(self.model.points) + exp else "remove_none" if not exp else "remove_all_matched")

    def op_remove_all(self):
        for real in self.reals:
            r = self.call(real, "remove_all", real.db.remove_all)
            if r is not None:
                self.fail("remove_all-return", real, "remove_all returned %r" % (r,))
        self.model.remove_all()
        self.flags.add("reset")

    def op_update(self, q, m, args, via):
        """args: slot -> static value | ["fn", name] | ["fn_raise", j, name] | ["fn_invalid", j, name, k]; unset_* static."""
        is_all = via in ("update_all", "handle_update_all")
        mq = None if is_all else q
        mm = m if via != "update_all" else None
        sel = self.model.matches(mq, mm)
        # what the model expects
        fault = None
        for slot in ("time", "measurement", "tags", "fields"):
            v = args.get(slot)
            if isinstance(v, list) and v and v[0] in ("fn_raise", "fn_invalid"):
                fault = (slot, v)
        n_sel = len(sel)
        margs = {}
        for slot, v in args.items():
            if isinstance(v, list) and v and v[0] in ("fn", "fn_raise", "fn_invalid"):
                margs[slot] = UPD[slot][v[-1] if v[0] != "fn_invalid" else v[2]]
            else:
                margs[slot] = v
        will_fault = fault is not None and fault[1][1] <= n_sel
        # Known finding KF-mem-update-partial: MemoryStorage hands update() the stored Point objects themselves, so whatever
        # was assigned before the callable fails (earlier selected points, earlier attributes of the same point) stays.
        order = ["time", "measurement", "tags", "fields"]
        partial_possible = will_fault and (fault[1][1] >= 2 or any(s in args for s in order[: order.index(fault[0])]))
        if not will_fault:
            trial = self.model.copy()
            exp = trial.update(mq, mm, **margs)
        for real in self.reals:
            if partial_possible and real.kind == "mem" and "mem-update-partial" in self.ctx.known:
                self.ctx.acc.excluded["mem-update-partial"] += 1
                continue
            served = "idx" if real.db.index.valid and not is_all else "scan"
            kw, probes = {}, []
            for slot, v in args.items():
                if isinstance(v, list) and v and v[0] in ("fn", "fn_raise", "fn_invalid"):
                    f, pr = make_callable(slot, v)
                    kw[slot] = f
                    probes.append(pr)
                else:
                    kw[slot] = copy.deepcopy(v)
            if via == "update_all":
                fn = lambda: real.db.update_all(**kw)  # noqa: E731
            elif via == "handle_update_all":
                fn = lambda: real.handle(m, False).update_all(**kw)  # noqa: E731
            elif via in ("handle", "old_handle") and m is not None:
                fn = lambda: real.handle(m, via == "old_handle").update(qast.build(q), **kw)  # noqa: E731
            elif m is None:
                fn = lambda: real.db.update(qast.build(q), **kw)  # noqa: E731
            else:
                fn = lambda: real.db.update(qast.build(q), _measurement=m, **kw)  # noqa: E731
            if will_fault:
                # a callable's own exception normally propagates as it is; the properties only say that the call raises
                excs = (Exception,) if fault[1][0] == "fn_raise" else (ValueError, TypeError)
                e = self.expect_raise(real, "update-" + fault[1][0], fn, excs)
                if fault[1][0] == "fn_raise" and not isinstance(e, CallableRaised):
                    self.ctx.acc.cls("callable_exception_wrapped_as_" + type(e).__name__)
            else:
                r = self.call(real, "update", fn)
                if r != exp:
                    self.fail("update-return", real, "update returned %r, model changes %d of %d selected (served by %s; q=%s m=%r args=%r)" % (r, exp, n_sel, served, qast.show(q) if q else None, m, args))
            self.ctx.acc.cls("update_served_" + served)
        if will_fault:
            self.flags.add("raised")
            self.flags.add("raised_mid" if fault[1][1] >= 2 else "raised_edge")
            self.ctx.acc.cls("update_fault_" + fault[1][0])
        else:
            self.model = trial
            self.flags.add("update_changed" if exp else "update_noop")
            self.ctx.acc.cls("update_" + ("none_selected" if n_sel == 0 else "changed_all" if exp == n_sel else "changed_none" if exp == 0 else "changed_some"))
            if 0 < n_sel < len(self.model.points) and 0 < exp < n_sel:
                self.flags.add("update_strict")

    def op_update_primed_invalid(self, q, m, via, one):
        """A callable returning the valid {"a": 1} (or 0), then - same query, same route - a callable returning the ==-equal but
        invalid {"a": True} (or False): the second call must raise and change nothing, whatever was remembered from the first."""
        good, bad = ("fields_a1", 3) if one else ("fields_a0", 5)
        self.op_update(q, m, {"fields": ["fn", good]}, via)
        self.op_update(q, m, {"fields": ["fn_invalid", 1, good, bad]}, via)

    def op_bad_update(self, kind, q, m):
        """Invalid static arguments: must raise ValueError/TypeError and change nothing."""
        kw = {
            "no_args": {},
            "all_falsy": {"tags": {}, "fields": {}, "unset_tags": [], "measurement": ""},
            "bad_time": {"time": "2020-01-01"},
            "bad_measurement": {"measurement": 5},
            "bad_tags": {"tags": {"a": 5}},
            "bad_tag_key": {"tags": {5: "x"}},
            "bad_fields": {"fields": {"a": "x"}},
            "bad_field_bool": {"fields": {"a": True}},
            "bad_unset_tags": {"unset_tags": [5]},
            "bad_unset_fields": {"unset_fields": 5},
            "not_a_query": {"tags": {"a": "x"}},
        }[kind]
        for real in self.reals:
            bq = "not a query" if kind == "not_a_query" else qast.build(q)
            if m is None:
                fn = lambda: real.db.update(bq, **copy.deepcopy(kw))  # noqa: E731
            else:
                fn = lambda: real.handle(m, False).update(bq, **copy.deepcopy(kw))  # noqa: E731
            self.expect_raise(real, "bad_update-" + kind, fn, (ValueError, TypeError))
        self.flags.add("raised")

    def op_bad_insert(self, kind):
        if kind == "surrogate":
            # a valid Point whose text CSV storage cannot encode: the failure strikes inside the storage layer's append
            from tinyflux import Point

            for real in self.reals:
                if real.kind != "csv":
                    continue
                p = Point(time=gen.T0 + timedelta(days=900), measurement="m1", tags={"a": "x\ud800"}, fields={"a": 1})
                self.expect_raise(real, "bad_insert-" + kind, lambda: real.db.insert(p), (ValueError, OSError))
            self.flags.add("raised")
            self.flags.add("raised_in_storage")
            return
        if kind == "overflow_int":
            # a valid Point that CSV storage cannot serialize (int beyond the float range, see C05/KF-int-overflow): the insert
            # raises on CSV databases and must leave them untouched; memory databases accept the point, so they are not given it
            from tinyflux import Point

            for real in self.reals:
                if real.kind != "csv":
                    continue
                p = Point(time=gen.T0 + timedelta(days=900), measurement="m1", tags={"a": "x"}, fields={"a": 10**400})
                self.expect_raise(real, "bad_insert-" + kind, lambda: real.db.insert(p), (OverflowError, ValueError, TypeError))
            self.flags.add("raised")
            return
        for real in self.reals:
            bad = {"dict": {"time": 1}, "none": None, "str": "point", "tuple": (1, 2)}[kind]
            self.expect_raise(real, "bad_insert-" + kind, lambda: real.db.insert(bad), (TypeError, ValueError))
        self.flags.add("raised")

    def op_bad_read(self, kind, q):
        for real in self.reals:
            if kind == "search_nonquery":
                self.expect_raise(real, "bad_read-" + kind, lambda: real.db.search("nope"), (ValueError, TypeError))
            elif kind == "select_badkey":
                self.expect_raise(real, "bad_read-" + kind, lambda: real.db.select("tags", qast.build(q)), (ValueError, TypeError))
            elif kind == "select_nokey":
                self.expect_raise(real, "bad_read-" + kind, lambda: real.db.select(("time", "fields."), qast.build(q)), (ValueError, TypeError))
            elif kind == "select_noniter":
                self.expect_raise(real, "bad_read-" + kind, lambda: real.db.select(5, qast.build(q)), (ValueError, TypeError))
        self.flags.add("raised")

    def op_reindex(self):
        for real in self.reals:
            self.call(real, "reindex", real.db.reindex)
            if not real.db.index.valid:
                self.fail("reindex-invalid", real, "index not valid after reindex()")

    def op_reopen(self):
        for real in self.reals:
            if real.kind == "csv":
                self.call(real, "close", real.do_close)
                self.call(real, "reopen", real.open)
        self.flags.add("reopen")

    # ---- operations whose query is derived from a stored point at execution time (so that it hits)
    def resolve_hit(self, spec, q2):
        """spec = [i, kind, opi, comb]: a leaf about stored point i (mod n), combined with the generated query q2.
        Deterministic in the model state, so histories replay identically."""
        i, kind, opi, comb = spec
        if not self.model.points:
            return q2
        p = self.model.points[i % len(self.model.points)]
        ops = ["==", "<=", ">=", "<", ">", "!="]
        if kind in ("tag", "tag_exists") and not p["tags"]:
            kind = "meas"
        if kind in ("field", "field_exists") and not p["fields"]:
            kind = "time"
        if kind == "time":
            leaf = ["leaf", "time", [], ["cmp", ops[opi % 6], p["time"].astimezone(gen.OFFSETS[opi % len(gen.OFFSETS)])]]
        elif kind == "meas":
            leaf = ["leaf", "meas", [], ["cmp", "==" if opi % 3 else "!=", p["measurement"]]]
        elif kind in ("tag", "tag_exists"):
            k = sorted(p["tags"])[opi % len(p["tags"])]
            leaf = ["leaf", "tag", [["key", k]], ["exists"] if kind == "tag_exists" else ["cmp", "==" if opi % 4 else "!=", p["tags"][k]]]
        else:
            k = sorted(p["fields"])[opi % len(p["fields"])]
            leaf = ["leaf", "field", [["key", k]], ["exists"] if kind == "field_exists" else ["cmp", ops[opi % 6], p["fields"][k]]]
        if comb == 1:
            return ["and", leaf, q2]
        if comb == 2:
            return ["or", q2, leaf]
        if comb == 3:
            return ["not", leaf]
        return leaf

    def _m_of_hit(self, spec, m):
        """Measurement filter for a hit operation: the stored point's own measurement (when asked for), so the filter does not hide it."""
        if m == "<own>":
            return self.model.points[spec[0] % len(self.model.points)]["measurement"] if self.model.points else None
        return m

    def op_probe_twin(self, q, q2, m, keys, via):
        """Two probes back to back, the second a near-miss variant of the first (a result cache keyed too coarsely would answer it from the first)."""
        self.op_probe(q, m, keys, via)
        return self.op_probe(q2, m, keys, via)

    def op_probe_hit(self, spec, q2, m, keys, via):
        return self.op_probe(self.resolve_hit(spec, q2), self._m_of_hit(spec, m), keys, via)

    def op_remove_hit(self, spec, q2, m, via):
        return self.op_remove(self.resolve_hit(spec, q2), self._m_of_hit(spec, m), via)

    def op_update_hit(self, spec, q2, m, args, via):
        t = args.get("time")
        if isinstance(t, list) and t and t[0] == "hit_time_in_zone":
            from zoneinfo import ZoneInfo

            base = self.model.points[spec[0] % len(self.model.points)]["time"] if self.model.points else gen.T0
            args = dict(args, time=base.astimezone(ZoneInfo(t[1])))
            self.ctx.acc.cls("update_time_same_instant_in_iana_zone" + ("_fold" if args["time"].fold else ""))
        return self.op_update(self.resolve_hit(spec, q2), self._m_of_hit(spec, m), args, via)

    def op_move(self, spec, use_fn, via):
        """Points of one measurement are renamed into another one; listings of both measurements, read through handles that
        existed before the move (and through the database), are taken right before and right after it."""
        if not self.model.points:
            return
        p = self.model.points[spec[0] % len(self.model.points)]
        src = p["measurement"]
        dest = "m2" if src != "m2" else "m1"
        q = self.resolve_hit(spec, ["leaf", "time", [], ["noop"]])
        tk = sorted(p["tags"])[:1] or ["a"]
        fk = (sorted(p["fields"]) or ["a"])[0]
        for m in (dest, src):
            self.op_getters(m, tk, fk, "old_handle")
        arg = ["fn", "meas_const" if dest == "m2" else "meas_m1"] if use_fn else dest
        self.op_update(q, src, {"measurement": arg}, via)
        for m, v in ((dest, "old_handle"), (src, "old_handle"), (dest, "db"), (None, "db")):
            self.op_getters(m, tk, fk, v)
        self.flags.add("moved_between_measurements")
        self.ctx.acc.cls("move_%s_%s" % ("callable" if use_fn else "static", via))

    # ---- reads
    def op_probe(self, q, m, keys, via):
        match = self.model.matches(q, m)
        n_all = len(self.model.points)
        exp_sorted = model.time_sorted(match)
        exp_sel = model.select_values(match, keys)
        for real in self.reals:
            db = real.db
            served = "idx" if (db.index.valid or real.auto) else "scan"
            bq = qast.build(q)
            if via in ("handle", "old_handle") and m is not None:
                h = real.handle(m, via == "old_handle")
                f = {"search": lambda **k: h.search(bq, **k), "count": lambda: h.count(bq), "contains": lambda: h.contains(bq), "get": lambda: h.get(bq), "select": lambda: h.select(keys, bq)}
            elif m is None:
                f = {"search": lambda **k: db.search(bq, **k), "count": lambda: db.count(bq), "contains": lambda: db.contains(bq), "get": lambda: db.get(bq), "select": lambda: db.select(keys, bq)}
            else:
                f = {"search": lambda **k: db.search(bq, m, **k), "count": lambda: db.count(bq, m), "contains": lambda: db.contains(bq, m), "get": lambda: db.get(bq, m), "select": lambda: db.select(keys, bq, m)}
            ctxs = "q=%s m=%r (served by %s, %d stored)" % (qast.show(q), m, served, n_all)
            res = self.call(real, "search", f["search"], sorted=False)
            got = pts(res)
            if real.kind == "csv":
                # the caller owns what a read hands back (CSV storage: freshly decoded points): scribbling on it must not
                # leak into anything the database returns later
                for P in res:
                    P.tags["zz_scribble"] = "1"
                    P.fields.clear()
            if got != match:
                self.fail("search", real, "search(sorted=False) returned %d points %s, model matches %d %s; %s" % (len(got), brief(got), len(match), brief(match), ctxs))
            got = pts(self.call(real, "search", f["search"]))
            if got != exp_sorted:
                self.fail("search-sorted", real, "search() returned %s, expected time order %s; %s" % (brief(got), brief(exp_sorted), ctxs))
            c = self.call(real, "count", f["count"])
            if c != len(match) or type(c) is not int:
                self.fail("count", real, "count = %r, model matches %d; %s" % (c, len(match), ctxs))
            b = self.call(real, "contains", f["contains"])
            if b is not bool(match):
                self.fail("contains", real, "contains = %r, model matches %d; %s" % (b, len(match), ctxs))
            g = self.call(real, "get", f["get"])
            gm = model.from_point(g) if g is not None else None
            if gm != (match[0] if match else None):
                self.fail("get", real, "get = %s, expected first match in insertion order %s; %s" % (brief([gm]) if gm else None, brief(match[:1]), ctxs))
            s = self.call(real, "select", f["select"])
            if s != exp_sel:
                self.fail("select", real, "select(%r) = %r, expected %r; %s" % (keys, s[:6], exp_sel[:6], ctxs))
            self.ctx.acc.ev(6)
            self.ctx.acc.cls("probe_served_" + served)
        acc = self.ctx.acc
        self.last_probe = "none" if not match else "all" if len(match) == n_all else "some"
        self.last_query = q
        acc.cls("probe_matches_" + self.last_probe)
        acc.cls("probe_db_size_" + ("0" if n_all == 0 else "1-3" if n_all <= 3 else "4-9" if n_all <= 9 else "10+"))
        return match

    def op_getters(self, m, tag_keys, field_key, via):
        mod = self.model
        for real in self.reals:
            db = real.db
            use_h = via in ("handle", "old_handle") and m is not None
            h = real.handle(m, via == "old_handle") if use_h else None
            served = "idx" if (db.index.valid or real.auto) else "scan"
            ctxs = "m=%r via %s (served by %s)" % (m, via, served)

            def cmp(name, got, exp):
                if got != exp:
                    self.fail("getter-" + name, real, "%s = %r, expected %r; %s" % (name, got, exp, ctxs))
                self.ctx.acc.ev()

            if not use_h:
                a = [m] if m is not None else []
                calls = [
                    lambda: cmp("get_measurements", self.call(real, "getter", db.get_measurements), mod.get_measurements()),
                    lambda: cmp("len", self.call(real, "getter", len, db), len(mod.points)),
                    lambda: cmp("iter", pts(self.call(real, "getter", list, iter(db))), mod.points),
                    lambda: cmp("all-sorted", pts(self.call(real, "getter", db.all)), model.time_sorted(mod.points)),
                    lambda: cmp("get_tag_keys", self.call(real, "getter", db.get_tag_keys, *a), mod.get_tag_keys(m)),
                    lambda: cmp("get_field_keys", self.call(real, "getter", db.get_field_keys, *a), mod.get_field_keys(m)),
                    lambda: cmp("get_tag_values", self.call(real, "getter", db.get_tag_values, list(tag_keys), *a), mod.get_tag_values(tag_keys, m)),
                    lambda: cmp("get_field_values", self.call(real, "getter", db.get_field_values, field_key, *a), mod.get_field_values(field_key, m)),
                    lambda: cmp("get_timestamps", self.call(real, "getter", db.get_timestamps, *a), mod.get_timestamps(m)),
                ]
                # which getter comes first after the preceding write varies with the position in the history
                # (a getter that is wrong only until some other read has touched the file must get its turn to go first)
                r = (len(self.log) * 4 + len(tag_keys)) % len(calls)
                for c in calls[r:] + calls[:r]:
                    c()
            else:
                cmp("h.len", self.call(real, "getter", len, h), len(mod.of(m)))
                cmp("h.iter", pts(self.call(real, "getter", list, iter(h))), mod.of(m))
                cmp("h.all", pts(self.call(real, "getter", h.all)), model.time_sorted(mod.of(m)))
                cmp("h.all-unsorted", pts(self.call(real, "getter", h.all, sorted=False)), mod.of(m))
                cmp("h.get_tag_keys", self.call(real, "getter", h.get_tag_keys), mod.get_tag_keys(m))
                cmp("h.get_field_keys", self.call(real, "getter", h.get_field_keys), mod.get_field_keys(m))
                cmp("h.get_tag_values", self.call(real, "getter", h.get_tag_values, list(tag_keys)), mod.get_tag_values(tag_keys, m))
                cmp("h.get_field_values", self.call(real, "getter", h.get_field_values, field_key), mod.get_field_values(field_key, m))
                cmp("h.get_timestamps", self.call(real, "getter", h.get_timestamps), mod.get_timestamps(m))
                if self.call(real, "getter", lambda: h.name) != m:
                    self.fail("getter-h.name", real, "handle name")
            self.ctx.acc.cls("getters_served_" + served)


def file_bytes(real):
    if real.kind != "csv":
        return None
    with open(real.path, "rb") as f:
        return f.read()


def brief(points, n=4):
    def one(p):
        if p is None:
            return "None"
        t = p["time"].isoformat()[5:26] if hasattr(p["time"], "isoformat") else "INVALID-TIME:%r" % (p["time"],)
        tags = {k: (v[:12] + "...(%d chars)" % len(v) if isinstance(v, str) and len(v) > 40 else v) for k, v in p["tags"].items()} if isinstance(p["tags"], dict) else p["tags"]
        return "(%s %s %s %s)" % (t, p["measurement"], tags, p["fields"])

    s = ", ".join(one(p) for p in points[:n])
    return "[" + s + (", ...+%d" % (len(points) - n) if len(points) > n else "") + "]"
