"""The finite universe of points and the leaf vocabulary shared by C09 and C17.

Universe U: tags {a,b} -> {missing, None, "", "x", "X", "xy"}, fields {a,f} -> {missing, None, 0, -1, 1, 2.5},
3 measurements, 3 times: |U| = 6*6*6*6*3*3 = 11 664 points.
Every leaf addresses a tuple of *slots* out of (time, measurement, tag a, tag b, field a, field f): usually one,
none for noop, two for a function applied to the whole tag/field mapping.
"""
import itertools
from datetime import timedelta, timezone

from .gen import T0

MISSING = "<missing>"
TAGV = [MISSING, None, "", "x", "X", "xy", "x\n"]  # "x\n": regular expressions' $ also matches before a trailing newline
FLDV = [MISSING, None, 0, -1, 1, 2.5]
MEASV = ["m1", "", "M1"]
from datetime import datetime as _dt

def _far():
    """An instant in the year 2600 whose float timestamp is the same as that of the next microsecond (floats resolve ~4 us there)."""
    for u in range(0, 64):
        a = _dt(2600, 1, 1, 0, 0, 0, u, tzinfo=timezone.utc)
        if a.timestamp() == (a + timedelta(microseconds=1)).timestamp():
            return a
    return _dt(2600, 1, 1, 0, 0, 0, 1, tzinfo=timezone.utc)


FAR = _far()  # far outside the range in which float timestamps still resolve microseconds
from zoneinfo import ZoneInfo as _ZI

# 01:30 wall time in London occurs twice on 2021-10-31; fold=1 is the second one (offset zero, yet not UTC)
LONDON_FOLD = _dt(2021, 10, 31, 1, 30, fold=1, tzinfo=_ZI("Europe/London"))
NY_FOLD = _dt(2021, 11, 7, 1, 30, fold=1, tzinfo=_ZI("America/New_York"))
TIMEV = [T0, T0 + timedelta(microseconds=1), T0 - timedelta(days=20000), FAR, FAR + timedelta(microseconds=1), LONDON_FOLD.astimezone(timezone.utc), NY_FOLD.astimezone(timezone.utc)]
SLOTS = {"time": TIMEV, "meas": MEASV, "tag.a": TAGV, "tag.b": TAGV, "field.a": FLDV, "field.f": FLDV}
DEFAULT = {"time": T0, "meas": "m1", "tag.a": "x", "tag.b": MISSING, "field.a": 1, "field.f": MISSING}
NPT = timezone(timedelta(hours=5, minutes=45))


def point_from_slots(s):
    tags = {k: s["tag." + k] for k in ("a", "b") if s["tag." + k] is not MISSING and s["tag." + k] != MISSING}
    fields = {k: s["field." + k] for k in ("a", "f") if s["field." + k] is not MISSING and s["field." + k] != MISSING}
    return {"time": s["time"], "measurement": s["meas"], "tags": tags, "fields": fields}


def all_points():
    names = list(SLOTS)
    for combo in itertools.product(*(SLOTS[n] for n in names)):
        yield point_from_slots(dict(zip(names, combo)))


def points_varying(slots):
    """All points of U restricted to: the given slots take every value, the others stay at DEFAULT."""
    slots = [s for s in dict.fromkeys(slots) if s]
    for combo in itertools.product(*(SLOTS[n] for n in slots)):
        s = dict(DEFAULT)
        s.update(zip(slots, combo))
        yield point_from_slots(s)


def L(attr, path, test):
    return ["leaf", attr, path, test]


def K(k):
    return ["key", k]


def M(name):
    return ["map", name]


def vocabulary():
    """List of (leaf, slot)."""
    out = []
    ops = ["==", "!=", "<", "<=", ">", ">="]
    # time
    for rhs in (T0, T0.astimezone(NPT), T0 + timedelta(microseconds=1)):
        for op in ops:
            out.append((L("time", [], ["cmp", op, rhs]), "time"))
    out.append((L("time", [], ["test", "year_even", []]), "time"))
    out.append((L("time", [M("year")], ["test", "in", [2020]]), "time"))
    out.append((L("time", [M("ident")], ["cmp", ">=", T0]), "time"))
    for op in ("==", "<", ">="):
        out.append((L("time", [], ["cmp", op, FAR + timedelta(microseconds=1)]), "time"))
    for rhs in (LONDON_FOLD, NY_FOLD):
        for op in ("==", "!=", "<=", ">"):
            out.append((L("time", [], ["cmp", op, rhs]), "time"))
    out.append((L("time", [], ["noop"]), None))
    # measurement
    for rhs in ("m1", "", "M1"):
        for op in ops:
            out.append((L("meas", [], ["cmp", op, rhs]), "meas"))
    out.append((L("meas", [], ["matches", "m", 0]), "meas"))
    out.append((L("meas", [], ["matches", "m1", 2]), "meas"))
    out.append((L("meas", [], ["search", "1", 0]), "meas"))
    out.append((L("meas", [], ["search", "^$", 0]), "meas"))
    out.append((L("meas", [], ["matches", "1", 0]), "meas"))  # re.match anchors at the start only
    out.append((L("meas", [], ["search", "^m", 2]), "meas"))  # IGNORECASE must be honoured by search too
    out.append((L("meas", [], ["test", "is_str", []]), "meas"))
    out.append((L("meas", [], ["test", "len_lt", [2]]), "meas"))
    out.append((L("meas", [M("upper")], ["cmp", "==", "M1"]), "meas"))
    out.append((L("meas", [M("first_char")], ["cmp", "==", "m"]), "meas"))
    out.append((L("meas", [], ["noop"]), None))
    # tag a
    for rhs in (None, "", "x"):
        for op in ops:
            out.append((L("tag", [K("a")], ["cmp", op, rhs]), "tag.a"))
    out.append((L("tag", [K("a")], ["exists"]), "tag.a"))
    out.append((L("tag", [K("a")], ["matches", "x", 0]), "tag.a"))
    out.append((L("tag", [K("a")], ["matches", "x", 2]), "tag.a"))
    out.append((L("tag", [K("a")], ["matches", "x$", 0]), "tag.a"))
    out.append((L("tag", [K("a")], ["matches", "^x$", 0]), "tag.a"))
    out.append((L("tag", [K("a")], ["search", "x$", 0]), "tag.a"))
    out.append((L("tag", [K("a")], ["search", "^x", 0]), "tag.a"))
    out.append((L("tag", [K("a")], ["search", "y", 0]), "tag.a"))
    out.append((L("tag", [K("a")], ["search", "^$", 0]), "tag.a"))
    out.append((L("tag", [K("a")], ["matches", "y", 0]), "tag.a"))
    out.append((L("tag", [K("a")], ["search", "XY", 2]), "tag.a"))
    out.append((L("tag", [K("a")], ["test", "is_none", []]), "tag.a"))
    out.append((L("tag", [K("a")], ["test", "truthy", []]), "tag.a"))
    out.append((L("tag", [K("a")], ["test", "in", ["x", "X"]]), "tag.a"))
    out.append((L("tag", [K("a"), M("upper")], ["cmp", "==", "X"]), "tag.a"))
    out.append((L("tag", [K("a"), M("first_char")], ["cmp", "==", "x"]), "tag.a"))
    out.append((L("tag", [K("a"), M("len")], ["test", "in", [0, 1]]), "tag.a"))
    out.append((L("tag", [K("a"), K("b")], ["cmp", "==", "x"]), "tag.a"))
    out.append((L("tag", [K("a")], ["noop"]), None))
    for t in (["cmp", "==", "x"], ["cmp", "!=", "x"], ["cmp", "<", "x"], ["exists"]):
        out.append((L("tag", [K("b")], t), "tag.b"))
    # field a
    for rhs in (None, 0, 1, 2.5):
        for op in ops:
            out.append((L("field", [K("a")], ["cmp", op, rhs]), "field.a"))
    out.append((L("field", [K("a")], ["exists"]), "field.a"))
    out.append((L("field", [K("a")], ["test", "is_none", []]), "field.a"))
    out.append((L("field", [K("a")], ["test", "truthy", []]), "field.a"))
    out.append((L("field", [K("a")], ["test", "total_even", []]), "field.a"))
    out.append((L("field", [K("a"), M("double")], ["cmp", "==", 2]), "field.a"))
    out.append((L("field", [K("a"), M("reciprocal")], ["cmp", ">", 0]), "field.a"))
    out.append((L("field", [K("a"), M("neg")], ["cmp", "<", 0]), "field.a"))
    out.append((L("field", [K("a"), K("b")], ["cmp", "==", 1]), "field.a"))
    out.append((L("field", [K("a")], ["noop"]), None))
    for t in (["cmp", "==", 1], ["cmp", "!=", 1], ["cmp", ">", 0], ["exists"]):
        out.append((L("field", [K("f")], t), "field.f"))
    # keys that happen to be names of query-builder attributes and methods (item syntax must treat them as plain keys)
    for key in ("test", "map", "noop", "exists", "_hash", "_path", "search"):
        out.append((L("tag", [K(key)], ["cmp", "==", "x"]), None))
        out.append((L("field", [K(key)], ["exists"]), None))
    out.append((L("tag", [K("matches")], ["cmp", "!=", "x"]), None))
    # a function as the first path element sees the whole tag / field mapping (accepted by the DSL)
    out.append((L("field", [M("len")], ["cmp", "==", 0]), ("field.a", "field.f")))
    out.append((L("field", [M("len")], ["cmp", ">=", 1]), ("field.a", "field.f")))
    out.append((L("tag", [M("len")], ["test", "in", [0, 2]]), ("tag.a", "tag.b")))
    out.append((L("field", [M("ident"), K("a")], ["cmp", "==", 1]), "field.a"))
    return [(leaf, _slots(slot)) for leaf, slot in out]


def _slots(slot):
    if slot is None:
        return ()
    return (slot,) if isinstance(slot, str) else tuple(slot)


def slot_value(p, slot):
    if slot == "time":
        return p["time"]
    if slot == "meas":
        return p["measurement"]
    kind, k = slot.split(".")
    d = p["tags"] if kind == "tag" else p["fields"]
    return d.get(k, MISSING)


def hard_value(leaf, slot, p):
    """Non-triviality rule of C09: the addressed attribute is missing, None, empty, zero or equal to the bound."""
    if len(slot) != 1:
        return bool(slot) and any(slot_value(p, s) == MISSING for s in slot)
    v = slot_value(p, slot[0])
    if v is MISSING or v == MISSING or v is None or v == "" or (isinstance(v, (int, float)) and v == 0):
        return True
    t = leaf[3]
    if t[0] == "cmp":
        try:
            return v == t[2]
        except Exception:
            return False
    return False
