"""crosshair contracts for the sorted-list helpers (asserts mode): pre = sorted list, post = linear-scan definition."""
from typing import List, Optional

from tinyflux.utils import find_eq, find_ge, find_gt, find_le, find_lt


def _sorted(lst: List[int]) -> bool:
    return all(lst[i] <= lst[i + 1] for i in range(len(lst) - 1))


def check_find_eq(lst: List[int], x: int) -> Optional[int]:
    assert _sorted(lst) and len(lst) <= 6
    r = find_eq(lst, x)
    c = [i for i in range(len(lst)) if lst[i] == x]
    assert r == (min(c) if c else None)
    return r


def check_find_lt(lst: List[int], x: int) -> Optional[int]:
    assert _sorted(lst) and len(lst) <= 6
    r = find_lt(lst, x)
    c = [i for i in range(len(lst)) if lst[i] < x]
    assert r == (max(c) if c else None)
    return r


def check_find_le(lst: List[int], x: int) -> Optional[int]:
    assert _sorted(lst) and len(lst) <= 6
    r = find_le(lst, x)
    c = [i for i in range(len(lst)) if lst[i] <= x]
    assert r == (max(c) if c else None)
    return r


def check_find_gt(lst: List[int], x: int) -> Optional[int]:
    assert _sorted(lst) and len(lst) <= 6
    r = find_gt(lst, x)
    c = [i for i in range(len(lst)) if lst[i] > x]
    assert r == (min(c) if c else None)
    return r


def check_find_ge(lst: List[int], x: int) -> Optional[int]:
    assert _sorted(lst) and len(lst) <= 6
    r = find_ge(lst, x)
    c = [i for i in range(len(lst)) if lst[i] >= x]
    assert r == (min(c) if c else None)
    return r
