"""Coverage-guided fuzz targets (atheris / libFuzzer) for C05 and C09, thorough tier only.

    python -m tfverif.fuzzdrv <c05|c09> <outdir> <known-classes-csv> [libFuzzer flags...]

The bytes are decoded into structured arguments with FuzzedDataProvider; the semantic oracle of the check runs inside the
target.  On a violation the case is written to <outdir>/violation.json (the replay unit) and the exception aborts the
campaign.  Counters are written to <outdir>/stats.json every 2 000 executions (atexit does not run under libFuzzer).
"""
import json
import os
import sys


def main():
    target, outdir, known = sys.argv[1], sys.argv[2], set(filter(None, sys.argv[3].split(",")))
    flags = sys.argv[4:]
    import atheris

    with atheris.instrument_imports(include=["tinyflux"]):
        import tinyflux  # noqa: F401
        import tinyflux.point  # noqa: F401
        import tinyflux.queries  # noqa: F401

    from datetime import datetime, timedelta, timezone

    from . import core, gen, qast, universe
    from .checks import c05, c09

    stats = {"execs": 0, "nontrivial": 0, "discarded": 0}
    seen = set()
    acc = core.Acc()

    def flush_stats():
        stats["excluded"] = dict(acc.excluded)
        stats["distinct_nontrivial"] = len(seen)
        with open(os.path.join(outdir, "stats.json.tmp"), "w") as f:
            json.dump(stats, f)
        os.replace(os.path.join(outdir, "stats.json.tmp"), os.path.join(outdir, "stats.json"))

    def fail(v):
        with open(os.path.join(outdir, "violation.json"), "w") as f:
            f.write(core.jdump({"sub": v.sub, "case": v.case, "message": v.message}))
        flush_stats()

    ADV = ["x", "_none", "__none", "_tag_", "t_", "f_", "_field_", "t", "f", "_", "", ",", '"', "\r", "\n", "\r\n", "\0", " ", "_default", "-1", "1.0", "nan"]

    def text(fdp):
        k = fdp.ConsumeIntInRange(0, 3)
        if k == 0:
            return ADV[fdp.ConsumeIntInRange(0, len(ADV) - 1)]
        s = fdp.ConsumeUnicodeNoSurrogates(fdp.ConsumeIntInRange(0, 12))
        if k == 1:
            return ADV[fdp.ConsumeIntInRange(0, len(ADV) - 1)] + s
        return s

    def c05_one(data):
        fdp = atheris.FuzzedDataProvider(data)
        t = datetime(1700, 1, 1, tzinfo=timezone.utc) + timedelta(microseconds=fdp.ConsumeIntInRange(0, 17040000000000000))
        tags, fields = {}, {}
        for _ in range(fdp.ConsumeIntInRange(0, 3)):
            tags[text(fdp)] = None if fdp.ConsumeBool() and fdp.ConsumeBool() else text(fdp)
        for _ in range(fdp.ConsumeIntInRange(0, 3)):
            k = fdp.ConsumeIntInRange(0, 3)
            if k == 0:
                v = None
            elif k == 1:
                v = fdp.ConsumeFloat()
                if v != v:
                    v = 0.0
            elif k == 2:
                v = fdp.ConsumeInt(8)
            else:
                v = [0.0, -0.0, float("inf"), float("-inf"), 5e-324, 2**53, -(2**53), 1e308][fdp.ConsumeIntInRange(0, 7)]
            fields[text(fdp)] = v
        p = c05.steer({"time": t, "measurement": text(fdp), "tags": tags, "fields": fields}, known, acc)
        compact = fdp.ConsumeBool()
        case = {"point": p, "compact": compact, "route": "codec"}
        c05.codec_roundtrip(p, compact, case)
        if c05.nontrivial(p):
            seen.add(core.digest([p, compact]))

    vocab = universe.vocabulary()
    pts = None

    def c09_one(data):
        nonlocal pts
        if pts is None:
            pts = list(universe.all_points())
        fdp = atheris.FuzzedDataProvider(data)

        def expr(d):
            k = fdp.ConsumeIntInRange(0, 5) if d > 0 else 0
            if k <= 2:
                return vocab[fdp.ConsumeIntInRange(0, len(vocab) - 1)][0]
            if k == 3:
                return ["not", expr(d - 1)]
            return ["and" if k == 4 else "or", expr(d - 1), expr(d - 1)]

        q = expr(fdp.ConsumeIntInRange(0, 5))
        p = pts[fdp.ConsumeIntInRange(0, len(pts) - 1)]
        c09.check_qp(q, p)
        if qast.depth(q) >= 2:
            seen.add(core.digest([q, p]))

    one = {"c05": c05_one, "c09": c09_one}[target]

    def TestOneInput(data):
        stats["execs"] += 1
        try:
            one(data)
        except core.Violation as v:
            fail(v)
            raise
        if stats["execs"] % 2000 == 0:
            flush_stats()

    atheris.Setup([sys.argv[0]] + flags, TestOneInput)
    atheris.Fuzz()


if __name__ == "__main__":
    main()
