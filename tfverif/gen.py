"""Hypothesis strategies: small overlapping pools (so queries hit, ties occur, keys collide) and wide values."""
import math
from datetime import datetime, timedelta, timezone

from hypothesis import strategies as st

from . import qast

UTC = timezone.utc
T0 = datetime(2020, 1, 1, tzinfo=UTC)
# exact duplicates arise because points draw from this small grid; adjacent microseconds and far-apart values
TIMES = [T0 + timedelta(microseconds=i) for i in (0, 1, 2)] + [T0 + timedelta(days=d) for d in (-20000, -1, 1, 400)] + [T0 + timedelta(seconds=1, microseconds=999999)]
# two instants that are the second 01:30 of a DST fold somewhere (New York 2021-11-07, London 2021-10-31)
TIMES += [datetime(2021, 11, 7, 6, 30, tzinfo=UTC), datetime(2021, 10, 31, 1, 30, tzinfo=UTC)]
EPOCH = datetime(1970, 1, 1, tzinfo=UTC)
TIMES += [EPOCH]  # the epoch itself: its timestamp 0.0 is falsy
OFFSETS = [UTC, timezone(timedelta(hours=5, minutes=45)), timezone(timedelta(hours=-8)), timezone(timedelta(hours=10, minutes=30))]
MEAS = ["_default", "m1", "m2", "a,b", "mé", "m1 ", "M1"]  # incl. a name that differs from another only by trailing white space
TKEYS = ["a", "b", "t x", "a.b"]  # "a.b": select("tags.a.b") must not be read as key "a"
TVALS = [None, "", "x", "X", "xy", "x\ny", "a,b", "x\u2028y", "x\x1dy\x85", '"q', "f_1"]  # incl. a value that looks like a (compact) field key
FKEYS = ["a", "f", "_t"]
FVALS = [None, 0, -0.0, 1, 2, -1.5, 2.0, math.inf]
NAN = float("nan")  # as a comparison value only: every comparison with it is false, != is true
REGEXES = ["x", "^x", ".*", "[xy]$", "X", "x.y", "^$", "m[12]", "a,"]
REFLAGS = [0, 2, 16]  # none, IGNORECASE, DOTALL


# sampling weights: common values repeated so that equality leaves hit often, rare/awkward values still occur
W_MEAS = ["m1", "m1", "m1", "_default", "_default", "a,b", "m2", "mé", "m1 ", "M1"]
W_TVALS = [None, "", "x", "x", "x", "X", "xy", "xy", "x\ny", "a,b", "x\u2028y", "x\x1dy\x85", '"q', "f_1"]  # incl. a leading quote character and characters str.splitlines() breaks on but csv does not
W_FVALS = [None, 0, -0.0, 1, 1, 1, 2, 2, -1.5, 2.0, math.inf]
W_TKEYS = ["a", "a", "a", "a", "a", "a", "b", "b", "t x", "t x", "a.b"]
W_FKEYS = ["a", "a", "a", "f", "_t"]


def times(pool=TIMES):
    return st.sampled_from(pool)


def offsets():
    return st.sampled_from(OFFSETS)


@st.composite
def points(draw, times_=None, meas=W_MEAS):
    t = draw(times_ if times_ is not None else times())
    tk = draw(st.lists(st.sampled_from(W_TKEYS), max_size=2, unique=True))
    fk = draw(st.lists(st.sampled_from(W_FKEYS), max_size=2, unique=True))
    p = {
        "time": t,
        "measurement": draw(st.sampled_from(meas)),
        "tags": {k: draw(st.sampled_from(W_TVALS)) for k in tk},
        "fields": {k: draw(st.sampled_from(W_FVALS)) for k in fk},
    }
    if draw(st.integers(0, 24)) == 0:
        p["tags"]["big"] = "y" * 9000  # a row larger than one I/O buffer: reads that stop early leave the file position mid-file
    return p


def to_point(mp, tz=None):
    """model point -> fresh tinyflux Point (time presented in another UTC offset if tz is given)."""
    from tinyflux import Point

    t = mp["time"]
    if tz is not None and t.tzinfo is not None:
        t = t.astimezone(tz)
    return Point(time=t, measurement=mp["measurement"], tags=dict(mp["tags"]), fields=dict(mp["fields"]))


# ---- queries -------------------------------------------------------------------------------------
@st.composite
def leaf(draw, time_pool=TIMES, allow_maps=True, allow_noop=True):
    attr = draw(st.sampled_from(["time", "meas", "tag", "tag", "field", "field"]))
    path = []
    if attr in ("tag", "field"):
        path.append(["key", draw(st.sampled_from(W_TKEYS if attr == "tag" else W_FKEYS))])
        if draw(st.integers(0, 29)) == 0:
            path.append(["key", "b"])  # two-key path: always false
    if allow_maps and draw(st.integers(0, 6)) == 0:
        names = {"time": ["year", "ident", "plus_day", "plus_day"], "meas": ["first_char", "upper", "len", "ident"], "tag": ["first_char", "upper", "ident", "len"], "field": ["double", "reciprocal", "neg", "ident"]}[attr]
        path.append(["map", draw(st.sampled_from(names))])
    mapped = bool(path) and path[-1][0] == "map"
    if mapped and path[-1][1] in ("year", "len"):
        # the mapped value is an int, but tinyflux validates the right-hand-side type per query type at
        # construction, so int-valued maps are probed with a membership test instead of a comparison
        return ["leaf", attr, path, ["test", "in", [2020, 1965] if path[-1][1] == "year" else [0, 1, 2]]]
    r = draw(st.integers(0, 19))
    if r < 11:
        op = draw(st.sampled_from(list(qast.OPS)))
        if attr == "time":
            rhs = draw(times(time_pool)).astimezone(draw(offsets()))
            if draw(st.integers(0, 3)) == 0:
                rhs = rhs + timedelta(microseconds=draw(st.sampled_from([-1, 1])))
        elif attr == "meas" and mapped and path[-1][1] == "upper":
            rhs = draw(st.sampled_from(["M1", "M1", "M1 ", "MÉ", "m1"]))  # what upper() can produce: names that differ by case only meet here
        elif attr == "meas":
            rhs = draw(st.sampled_from(W_MEAS + ["", "M1"]))
        elif attr == "tag":
            rhs = draw(st.sampled_from(W_TVALS))
        else:
            rhs = draw(st.sampled_from(W_FVALS + [0.0, 1.0, -1, -2, NAN]))
        test = ["cmp", op, rhs]
    elif r < 13 and attr in ("tag", "field"):
        test = ["exists"]
    elif r < 15:
        name = draw(st.sampled_from({"time": ["year_even", "truthy"], "meas": ["is_str", "truthy", "len_lt", "strlen"], "tag": ["is_none", "truthy", "is_str", "len_lt", "strlen"], "field": ["is_none", "truthy", "total_even"]}[attr]))
        test = ["test", name, [2] if name == "len_lt" else []]
    elif r < 18 and attr in ("tag", "meas"):
        test = [draw(st.sampled_from(["matches", "search"])), draw(st.sampled_from(REGEXES)), draw(st.sampled_from(REFLAGS))]
    elif r < 19 and allow_noop:
        test = ["noop"]
    else:
        test = ["cmp", "==", {"time": time_pool[0], "meas": "m1", "tag": "x", "field": 1}[attr]]
        if mapped:
            test = ["test", "truthy", []]
    return ["leaf", attr, path, test]


def queries(max_depth=3, **kw):
    lf = leaf(**kw)

    def extend(children):
        return st.one_of(
            st.tuples(st.just("not"), children).map(list),
            st.tuples(st.sampled_from(["and", "or"]), children, children).map(list),
        )

    deep = st.recursive(lf, extend, max_leaves=2 ** max_depth if max_depth < 4 else 10)
    shallow = st.one_of(lf, st.tuples(st.just("not"), lf).map(list), st.tuples(st.sampled_from(["and", "or", "or"]), lf, lf).map(list))
    return st.one_of(lf, shallow, shallow, deep)


def meas_filter():
    return st.sampled_from([None, None, None, None, None, "m1", "m1", "m2", "_default", "a,b", "absent"])
