"""Independent decoder of a TinyFlux CSV file, written from docs/source/data-elements.rst / internals.rst:
row = ISO time (UTC, no offset), measurement, then (prefixed key, value) pairs - tags first, then fields.
Key prefixes: _tag_ / t_ and _field_ / f_.  "_none" stands for None.  Field values are numbers.
Does not call any tinyflux code."""
import csv
import io
import locale
from datetime import datetime, timezone

NONE = "_none"


def default_encoding():
    return locale.getpreferredencoding(False)


def rows_of(data, encoding=None, dialect=None):
    text = data.decode(encoding or default_encoding())
    return list(csv.reader(io.StringIO(text, newline=""), **(dialect or {})))


def decode_row(row):
    t = datetime.fromisoformat(row[0])
    if t.tzinfo is not None:
        raise ValueError("time column carries an offset: %r" % row[0])
    t = t.replace(tzinfo=timezone.utc)
    meas = row[1]
    tags, fields = {}, {}
    if len(row) % 2:
        raise ValueError("odd number of columns: %r" % (row,))
    seen_field = False
    for i in range(2, len(row), 2):
        k, v = row[i], row[i + 1]
        if k.startswith("_tag_") or k.startswith("t_"):
            if seen_field:
                raise ValueError("tag column after a field column: %r" % (row,))
            key = k[5:] if k.startswith("_tag_") else k[2:]
            tags[key] = None if v == NONE else v
        elif k.startswith("_field_") or k.startswith("f_"):
            seen_field = True
            key = k[7:] if k.startswith("_field_") else k[2:]
            if v == NONE:
                fields[key] = None
            else:
                s = v[1:] if v[:1] == "-" else v
                fields[key] = int(v) if s.isdigit() else float(v)
        else:
            raise ValueError("column %d is neither a tag nor a field key: %r" % (i, k))
    return {"time": t, "measurement": meas, "tags": tags, "fields": fields}


def decode(data, encoding=None, dialect=None):
    """bytes of a database file -> list of model points (raises ValueError on a malformed file)."""
    return [decode_row(r) for r in rows_of(data, encoding, dialect)]


def csv_roundtrips(strings, dialect=None):
    """Harness self-check: can Python's csv module itself round-trip this row under the dialect?"""
    buf = io.StringIO(newline="")
    try:
        csv.writer(buf, **(dialect or {})).writerow(list(strings))
        back = list(csv.reader(io.StringIO(buf.getvalue(), newline=""), **(dialect or {})))
    except Exception:
        return False
    return back == [list(strings)]
