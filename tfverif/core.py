"""Shared runner machinery: shards, accumulators, violations, replays, evidence, known findings.

A check module (tfverif/checks/cNN.py) provides
    ID, LEVEL, RULE, ASSUMPTIONS
    shards(tier)            -> list of JSON-able shard specs (each is run in its own process slot)
    run_shard(spec, ctx)    -> None; uses ctx.acc (Acc) and raises Violation on the first failure
    replay(case)            -> None, or raises Violation if the stored case still fails
and optionally
    DIRECTED                -> list of cases executed through replay() before the search starts
    finish(merged, tier)    -> extra coverage keys computed from the merged accumulator
"""
import collections
import hashlib
import importlib
import json
import multiprocessing
import os
import shutil
import sys
import time
import traceback

VERIF = os.path.dirname(os.path.dirname(os.path.abspath(__file__)))
NCPU = min(16, os.cpu_count() or 1)


def repo_root():
    return os.path.abspath(os.environ.get("TFVERIF_REPO", "/repo"))


class Violation(Exception):
    """The property failed on a concrete case (JSON-able)."""

    def __init__(self, sub, case, message):
        super().__init__(message)
        self.sub = sub
        self.case = case
        self.message = message


class HarnessError(Exception):
    pass


def jdefault(o):
    import datetime

    if isinstance(o, datetime.datetime):
        key = getattr(o.tzinfo, "key", None)
        if key:  # an IANA zone: keep the zone and the fold, a fixed offset would not replay the same comparison semantics
            return {"$dt": o.replace(tzinfo=None).isoformat(), "$zone": key, "$fold": o.fold}
        return {"$dt": o.isoformat()}
    if isinstance(o, (set, frozenset)):
        return sorted(o, key=repr)
    if isinstance(o, bytes):
        return {"$b": o.hex()}
    if isinstance(o, float):
        return repr(o)
    return repr(o)


def jdump(o, **kw):
    return json.dumps(o, default=jdefault, sort_keys=True, **kw)


def digest(o):
    return hashlib.blake2b(jdump(o).encode("utf-8", "surrogatepass"), digest_size=8).digest()


class Acc:
    """Per-shard accumulator of what was really explored."""

    def __init__(self):
        self.evaluations = 0
        self.nontrivial = set()  # 8-byte digests of distinct non-trivial cases
        self.nontrivial_enum = 0  # non-trivial cases distinct by construction (exhaustive enumerations)
        self.classes = collections.Counter()
        self.excluded = collections.Counter()
        self.samples = []
        self.extra = {}
        self._nsample = 0

    def ev(self, n=1):
        self.evaluations += n

    def nt(self, case):
        self.nontrivial.add(digest(case))

    def cls(self, name, n=1):
        self.classes[name] += n

    def sample(self, case, cap=3, every=97):
        """Keep a few actual cases (first ones, then a sparse deterministic selection)."""
        self._nsample += 1
        if len(self.samples) < cap:
            self.samples.append(case)
        elif self._nsample % every == 0:
            self.samples[(self._nsample // every) % cap] = case

    def dump(self):
        return {
            "evaluations": self.evaluations,
            "nontrivial": [d.hex() for d in self.nontrivial],
            "nontrivial_enum": self.nontrivial_enum,
            "classes": dict(self.classes),
            "excluded": dict(self.excluded),
            "samples": json.loads(jdump(self.samples)),
            "extra": self.extra,
        }


class Ctx:
    def __init__(self, tier, seed, known, scratch, shard_index):
        self.tier = tier
        self.seed = seed  # per-shard seed derived from VERIF_SEED
        self.known = known  # set of active known-finding class names for this property
        self.scratch = scratch  # private scratch directory of this shard
        self.shard_index = shard_index
        self.acc = Acc()
        self._n = 0

    def fresh_dir(self):
        import tempfile

        return tempfile.mkdtemp(prefix="c", dir=self.scratch)


def shard_seed(seed, check, i):
    h = hashlib.sha256(("%d:%s:%d" % (seed, check, i)).encode()).digest()
    return int.from_bytes(h[:8], "big")


def scratch_base():
    for base in ("/dev/shm", None):
        if base is None or (os.path.isdir(base) and os.access(base, os.W_OK)):
            import tempfile

            return tempfile.mkdtemp(prefix="tfverif-%d-" % os.getpid(), dir=base)


def _worker(args):
    modname, spec, i, seed, tier, known, base = args
    # Only the parent prints to stdout; tinyflux itself prints from reindex().
    sys.stdout = open(os.devnull, "w")
    scratch = os.path.join(base, "s%d" % i)
    os.makedirs(scratch, exist_ok=True)
    import tempfile

    tempfile.tempdir = scratch
    ctx = Ctx(tier, shard_seed(seed, modname, i), set(known), scratch, i)
    t0 = time.time()
    out = {"shard": i, "spec": spec, "failure": None, "error": None}
    try:
        mod = importlib.import_module(modname)
        mod.run_shard(spec, ctx)
    except Violation as v:
        out["failure"] = {"sub": v.sub, "case": json.loads(jdump(v.case)), "message": v.message}
    except BaseException:
        out["error"] = traceback.format_exc()
    out["acc"] = ctx.acc.dump()
    out["wall_s"] = time.time() - t0
    shutil.rmtree(scratch, ignore_errors=True)
    return out


def check_tree():
    """Make sure the tinyflux that gets imported is the working tree under test."""
    import tinyflux

    root = repo_root()
    f = os.path.abspath(tinyflux.__file__)
    if not f.startswith(root + os.sep):
        raise HarnessError("tinyflux imported from %s, expected under %s" % (f, root))


# ----------------------------------------------------------------------------------------------
# known findings


def load_known():
    """known_findings.txt lines:
    known: property=C05 id=KF-x class=<trigger-class> witness=<path under /verif> :: <what fails>
    fixed: property=C17 <commit> <what failed>
    """
    path = os.path.join(VERIF, "known_findings.txt")
    known, fixed = [], []
    if not os.path.exists(path):
        return known, fixed
    for line in open(path, encoding="utf-8"):
        line = line.strip()
        if not line or line.startswith("#"):
            continue
        if line.startswith("known:"):
            head, _, what = line[len("known:"):].partition("::")
            kv = dict(tok.split("=", 1) for tok in head.split() if "=" in tok)
            kv["what"] = what.strip()
            known.append(kv)
        elif line.startswith("fixed:"):
            fixed.append(line)
    return known, fixed


# ----------------------------------------------------------------------------------------------
# evidence


def write_evidence(mod, tier, seed, merged, wall, violations, extra_cov):
    cov = {
        "evaluations": merged["evaluations"],
        "distinct_nontrivial": merged["distinct_nontrivial"],
        "rule": mod.RULE,
        "samples": merged["samples"][:8],
        "classes": merged["classes"],
        "excluded_known": merged["excluded"],
        "shards": merged["shards"],
    }
    cov.update(extra_cov or {})
    ev = {
        "property_id": mod.ID,
        "tier": tier,
        "seed": seed,
        "level": mod.LEVEL,
        "coverage": cov,
        "assumptions": list(getattr(mod, "ASSUMPTIONS", [])),
        "wall_s": round(wall, 3),
        "violations": violations,
    }
    if os.environ.get("TFVERIF_NO_EVIDENCE"):  # mutant / seeded-change runs must not overwrite real evidence
        return ev
    os.makedirs(os.path.join(VERIF, "evidence"), exist_ok=True)
    path = os.path.join(VERIF, "evidence", mod.ID + ".json")
    tmp = path + ".tmp"
    with open(tmp, "w", encoding="utf-8") as f:
        f.write(jdump(ev, indent=1))
        f.write("\n")
    os.replace(tmp, path)
    return ev


def write_replay(mod, failure, seed, tier):
    d = os.path.join("/dev/shm/tfverif-mutant-replays" if os.environ.get("TFVERIF_NO_EVIDENCE") else os.path.join(VERIF, "replays"), mod.ID)
    os.makedirs(d, exist_ok=True)
    body = {"property": mod.ID, "sub": failure["sub"], "case": failure["case"], "message": failure["message"], "seed": seed, "tier": tier}
    name = hashlib.sha256(jdump([failure["sub"], failure["case"]]).encode()).hexdigest()[:16] + ".json"
    path = os.path.join(d, name)
    with open(path, "w", encoding="utf-8") as f:
        f.write(jdump(body, indent=1))
    return path


def revive(o):
    """Inverse of jdefault for the tagged forms."""
    import datetime

    if isinstance(o, dict):
        if set(o) == {"$dt"}:
            return datetime.datetime.fromisoformat(o["$dt"])
        if set(o) == {"$dt", "$zone", "$fold"}:
            from zoneinfo import ZoneInfo

            return datetime.datetime.fromisoformat(o["$dt"]).replace(tzinfo=ZoneInfo(o["$zone"]), fold=o["$fold"])
        if set(o) == {"$b"}:
            return bytes.fromhex(o["$b"])
        return {k: revive(v) for k, v in o.items()}
    if isinstance(o, list):
        return [revive(v) for v in o]
    return o


def replay_case(mod, sub, case):
    """Run a stored case; returns None if it passes, the Violation if it still fails."""
    import tempfile

    base = scratch_base()
    old = tempfile.tempdir
    tempfile.tempdir = base
    so = sys.stdout
    sys.stdout = open(os.devnull, "w")
    try:
        mod.replay(sub, revive(case), Ctx("replay", 0, set(), base, 0))
        return None
    except Violation as v:
        return v
    finally:
        sys.stdout = so
        tempfile.tempdir = old
        shutil.rmtree(base, ignore_errors=True)


# ----------------------------------------------------------------------------------------------
# main driver


def run_check(modname, tier, seed):
    t0 = time.time()
    check_tree()
    mod = importlib.import_module(modname)
    known_all, _fixed = load_known()
    known = [k for k in known_all if k.get("property") == mod.ID]
    known_classes = sorted({k["class"] for k in known if "class" in k})
    violations = []

    # 1. known findings: replay witnesses, print KNOWN-FINDING while they still fail.
    known_report = []
    for k in known:
        wpath = os.path.join(VERIF, k.get("witness", ""))
        state = "no-witness"
        if k.get("witness") and os.path.exists(wpath):
            w = json.load(open(wpath, encoding="utf-8"))
            v = replay_case(mod, w["sub"], w["case"])
            state = "still-fails" if v is not None else "stale-passes"
        if state == "still-fails":
            print("KNOWN-FINDING: property=%s %s [%s class=%s]" % (mod.ID, k["what"], k.get("id", "?"), k.get("class", "?")))
        known_report.append({"id": k.get("id"), "class": k.get("class"), "state": state})

    # 2. regressions (shrunk failures of the past; fixed: entries suppress nothing)
    reg_dir = os.path.join(VERIF, "regressions", mod.ID)
    n_reg = 0
    known_witnesses = {os.path.abspath(os.path.join(VERIF, k.get("witness", ""))) for k in known if k.get("witness")}
    if os.path.isdir(reg_dir):
        for name in sorted(os.listdir(reg_dir)):
            p = os.path.join(reg_dir, name)
            if not name.endswith(".json") or os.path.abspath(p) in known_witnesses:
                continue
            w = json.load(open(p, encoding="utf-8"))
            n_reg += 1
            v = replay_case(mod, w["sub"], w["case"])
            if v is not None:
                violations.append({"sub": v.sub, "case": json.loads(jdump(v.case)), "message": "regression %s: %s" % (name, v.message)})

    # 3. the search itself
    specs = mod.shards(tier)
    base = scratch_base()
    merged = {"evaluations": 0, "classes": collections.Counter(), "excluded": collections.Counter(), "samples": [], "shards": len(specs), "extra": []}
    nontrivial = set()
    enum_nt = 0
    errors = []
    try:
        jobs = [(modname, spec, i, seed, tier, known_classes, base) for i, spec in enumerate(specs)]
        nproc = min(NCPU, len(jobs)) or 1
        if nproc == 1 or os.environ.get("TFVERIF_SERIAL"):
            so = sys.stdout
            results = []
            for j in jobs:
                results.append(_worker(j))
                sys.stdout = so
        else:
            with multiprocessing.get_context("fork").Pool(nproc) as pool:
                results = list(pool.imap_unordered(_worker, jobs, chunksize=1))
        results.sort(key=lambda r: r["shard"])
        for r in results:
            a = r["acc"]
            merged["evaluations"] += a["evaluations"]
            merged["classes"].update(a["classes"])
            merged["excluded"].update(a["excluded"])
            for s in a["samples"]:
                if len(merged["samples"]) < 8:
                    merged["samples"].append(s)
            nontrivial.update(a["nontrivial"])
            enum_nt += a["nontrivial_enum"]
            if a["extra"]:
                merged["extra"].append(a["extra"])
            if r["failure"]:
                violations.append(r["failure"])
            if r["error"]:
                errors.append((r["shard"], r["error"]))
    finally:
        shutil.rmtree(base, ignore_errors=True)

    merged["distinct_nontrivial"] = len(nontrivial) + enum_nt
    merged["classes"] = dict(sorted(merged["classes"].items()))
    merged["excluded"] = dict(sorted(merged["excluded"].items()))
    extra_cov = {"known_findings": known_report, "regressions_replayed": n_reg}
    if hasattr(mod, "finish"):
        extra_cov.update(mod.finish(merged, tier) or {})
    wall = time.time() - t0

    if errors:
        for i, e in errors[:2]:
            sys.stderr.write("HARNESS-ERROR in shard %d of %s (%d shards failed):\n%s\n" % (i, mod.ID, len(errors), e[-1800:]))
        write_evidence(mod, tier, seed, merged, wall, len(violations), dict(extra_cov, harness_errors=len(errors)))
        return 2

    ev = write_evidence(mod, tier, seed, merged, wall, len(violations), extra_cov)
    if violations:
        # deterministic choice: the smallest failing case first
        violations.sort(key=lambda f: (len(jdump(f["case"])), jdump(f["case"])))
        seen = set()
        for f in violations:
            if len(seen) >= 5:  # every shard stops at its first failure; a handful of replay files is enough
                break
            path = write_replay(mod, f, seed, tier)
            if path in seen:
                continue
            seen.add(path)
            print("VIOLATION property=%s replay=%s" % (mod.ID, path))
            sys.stderr.write("  %s: %s\n" % (f["sub"], f["message"][:2000]))
        return 1
    if ev["coverage"]["evaluations"] < 1 or ev["coverage"]["distinct_nontrivial"] < 2:
        sys.stderr.write("HARNESS-ERROR: %s explored too little (evaluations=%d, distinct_nontrivial=%d)\n" % (mod.ID, ev["coverage"]["evaluations"], ev["coverage"]["distinct_nontrivial"]))
        return 2
    print("OK property=%s tier=%s seed=%d evaluations=%d distinct_nontrivial=%d wall=%.1fs" % (mod.ID, tier, seed, ev["coverage"]["evaluations"], ev["coverage"]["distinct_nontrivial"], wall))
    return 0


def run_replay(path):
    check_tree()
    w = json.load(open(path, encoding="utf-8"))
    mod = importlib.import_module("tfverif.checks." + w["property"].lower())
    v = replay_case(mod, w["sub"], w["case"])
    if v is None:
        print("REPLAY-PASS property=%s file=%s" % (w["property"], path))
        return 0
    print("VIOLATION property=%s replay=%s" % (w["property"], path))
    sys.stderr.write("  %s: %s\n" % (v.sub, v.message[:4000]))
    return 1


# ----------------------------------------------------------------------------------------------
# Hypothesis glue


def hyp_search(check, strategy, seed, max_examples, shrink=True):
    """Run check(x) over generated x; return the Violation of the *minimal* failing example or None.

    Every random choice comes from Hypothesis; the run is a pure function of (code, seed).
    """
    import warnings

    import hypothesis
    from hypothesis import HealthCheck, Phase, given, settings
    from hypothesis.errors import HypothesisWarning

    warnings.filterwarnings("ignore", category=HypothesisWarning)

    phases = [Phase.generate] + ([Phase.shrink] if shrink else [])
    holder = {}

    @hypothesis.seed(seed)
    @settings(
        max_examples=max_examples,
        database=None,
        deadline=None,
        derandomize=False,
        report_multiple_bugs=False,
        print_blob=False,
        phases=phases,
        suppress_health_check=[HealthCheck.too_slow, HealthCheck.data_too_large, HealthCheck.filter_too_much],
    )
    @given(strategy)
    def t(x):
        try:
            check(x)
        except Violation as v:
            holder["v"] = v
            raise

    try:
        t()
    except Violation:
        return holder["v"]
    except BaseException as e:
        # Hypothesis re-runs a failing example; when the re-run does not fail the same way it reports "flaky".  The checks are
        # pure functions of their case, so this means the code under test kept state from one example to the next (a process-wide
        # cache, say) - the violation that was observed stands, its replay may need the preceding examples.
        if "v" in holder and type(e).__name__ in ("Flaky", "FlakyFailure", "FlakyReplay", "ExceptionGroup", "BaseExceptionGroup"):
            v = holder["v"]
            v.message = v.message + " [not reproduced when the same example was run again: state survives between independent cases]"
            return v
        raise
    return None


# ----------------------------------------------------------------------------------------------
# atheris glue (thorough tiers)


def run_fuzz(target, ctx, runs, max_len=256, timeout=1500):
    """Run one libFuzzer campaign of tfverif.fuzzdrv in a sub-process (fresh empty corpus, -seed from the shard seed).
    Returns (stats dict or None if atheris is unavailable, Violation or None)."""
    import subprocess

    try:
        import atheris  # noqa: F401
    except Exception:
        return None, None
    out = ctx.fresh_dir()
    corpus = os.path.join(out, "corpus")
    os.makedirs(corpus)
    cmd = [sys.executable, "-m", "tfverif.fuzzdrv", target, out, ",".join(sorted(ctx.known)), "-runs=%d" % runs, "-seed=%d" % (ctx.seed % (2**31 - 1) + 1),
           "-max_len=%d" % max_len, "-artifact_prefix=%s/" % out, "-print_final_stats=1", corpus]
    r = subprocess.run(cmd, cwd=VERIF, capture_output=True, text=True, timeout=timeout)
    stats = None
    sp = os.path.join(out, "stats.json")
    if os.path.exists(sp):
        stats = json.load(open(sp))
    vp = os.path.join(out, "violation.json")
    v = None
    if os.path.exists(vp):
        d = json.load(open(vp))
        v = Violation(d["sub"], revive(d["case"]), "[atheris] " + d["message"])
    elif r.returncode != 0:
        raise HarnessError("fuzz campaign %s exited %d: %s" % (target, r.returncode, (r.stderr or "")[-800:]))
    for line in (r.stderr or "").splitlines():
        if line.startswith("stat::number_of_executed_units:") and stats is not None:
            stats["execs"] = max(stats.get("execs", 0), int(line.split(":")[-1]))
    shutil.rmtree(out, ignore_errors=True)
    return stats or {"execs": 0, "distinct_nontrivial": 0}, v
