"""C13 — an I/O error during an operation is reported and corrupts nothing.

For each generated history the last operation is the operation under test.  A recording run under the I/O layer numbers its I/O steps; then for
each chosen step k (quick: a stratified sample covering every step kind; thorough: every k) and each variant (error before the call takes effect;
for flush / fsync / close also after it took effect) the history is replayed on a fresh database with OSError(ENOSPC / EIO) injected at k.
Oracle: (1) the API call raises an OSError - a normal return means the error was swallowed; (2) the file on disk, read independently right after the
exception, after every follow-up operation and after close(), decodes to the old or the new contents (extended by follow-up writes); (3) the live
object: every follow-up read either raises or agrees with a scan of its own storage (count / len / search / get_timestamps / get_measurements served
by the index must equal what all(sorted=False) returns) - never silently wrong; (4) a fresh reopen reads what the file decodes to.
"""
import copy
import os
import shutil

from hypothesis import strategies as st

from .. import core, csvref, gen, gen_ops, histcheck, iolayer, lockstep, model, qast
from ..core import Violation

ID = "C13"
LEVEL = "fault_enumeration"
RULE = (
    "Hypothesis-generated histories of 1-6 operations on a CSV database (auto_index on/off); the last operation (insert, insert_multiple, hitting update / remove, drop_measurement, remove_all, reindex, "
    "a read) is run once to number its I/O calls, then re-run on a fresh copy once per chosen call index k and variant with an OSError injected there, followed by generated reads, one insert, one further update/remove, close and reopen. "
    "Quick: <= 14 (k, variant) pairs per case chosen to cover every step kind of the operation; thorough: all. Non-trivial = fault injected after the first byte of the operation was written (a write step precedes k), "
    "i.e. the state really is mid-operation; distinct by (operation kind, step kind, variant, k relative to the operation)."
)
ASSUMPTIONS = [
    "one fault per execution; a faulted call either has no effect (before) or its full effect (after) - short writes are not modelled",
    "'fails with an error' accepts any exception from later operations on the damaged object; a wrong answer is the violation",
]

READ_Q = [
    ["leaf", "time", [], ["noop"]],
    ["leaf", "time", [], ["cmp", ">=", gen.T0]],
    ["leaf", "tag", [["key", "a"]], ["exists"]],
    ["leaf", "meas", [], ["cmp", "==", "m1"]],
    ["not", ["leaf", "tag", [["key", "a"]], ["cmp", "==", "x"]]],
    ["leaf", "field", [["key", "a"]], ["cmp", ">=", 1]],
]


REWRITES = [
    ("remove", ["leaf", "tag", [["key", "a"]], ["exists"]], None),
    ("remove", ["leaf", "meas", [], ["cmp", "==", "m1"]], None),
    ("update", ["leaf", "time", [], ["noop"]], {"tags": {"zz": "1"}}),
    ("update", ["leaf", "field", [["key", "a"]], ["exists"]], {"fields": {"a": 5}}),
    ("remove", ["leaf", "time", [], ["cmp", "<", gen.T0]], None),
]


def apply_rewrite(points, rw):
    m = model.Model(copy.deepcopy(points))
    kind, q, kw = rw
    if kind == "remove":
        m.remove(q)
    else:
        m.update(q, None, **kw)
    return m.points


def open_kwargs(case):
    """Constructor options of the database under test (the post-mortem reopen always uses the defaults: "w+" would truncate)."""
    return {"access_mode": case["access_mode"]} if case.get("access_mode") else {}


@st.composite
def cases(draw):
    pts = gen.points()
    setup_one = st.one_of(
        st.tuples(st.just("insert"), pts, st.integers(0, 3), st.booleans(), st.just("db"), st.booleans()).map(list),
        st.tuples(st.just("insert_multiple"), st.lists(pts, min_size=1, max_size=4), st.integers(0, 3), st.sampled_from(["inorder", "asis"]), st.just("db"), st.none(), st.just("m1")).map(list),
        gen_ops.op_remove_hit(), gen_ops.op_update_hit(), gen_ops.op_probe_hit(), st.just(["reindex"]),
    )
    target = st.one_of(
        st.tuples(st.just("insert"), pts, st.integers(0, 3), st.booleans(), st.just("db"), st.booleans()).map(list),
        st.tuples(st.just("insert"), pts, st.integers(0, 3), st.booleans(), st.just("db"), st.booleans()).map(list),
        st.tuples(st.just("insert_multiple"), st.lists(pts, min_size=1, max_size=3), st.integers(0, 3), st.sampled_from(["inorder", "asis"]), st.just("db"), st.none(), st.just("m1")).map(list),
        gen_ops.op_remove_hit(), gen_ops.op_remove_hit(), gen_ops.op_update_hit(), gen_ops.op_update_hit(),
        gen_ops.op_drop(), gen_ops.op_remove_all(), st.just(["reindex"]), gen_ops.op_probe_hit(),
        # operations that stage rows but end up changing nothing (no swap)
        st.tuples(st.just("update_hit"), gen_ops.hit_spec(), st.just(["leaf", "time", [], ["noop"]]), st.none(), st.sampled_from([{"tags": ["fn", "tags_echo"]}, {"time": ["fn", "time_other_zone"]}, {"unset_tags": "zz_absent"}]), st.just("db")).map(list),
        st.tuples(st.just("remove"), st.just(["leaf", "tag", [["key", "zz_never"]], ["exists"]]), st.none(), st.just("db")).map(list),
    )
    seed_pts = draw(st.lists(pts, min_size=1, max_size=5))
    ops = [["insert_multiple", seed_pts, 0, "asis", "db", None, "m1"]] + draw(st.lists(setup_one, max_size=4)) + [draw(target)]
    return {"ops": ops, "auto_index": draw(st.booleans()), "reads": draw(st.lists(st.integers(0, len(READ_Q) - 1), min_size=2, max_size=4)), "after_insert": draw(pts), "after_rewrite": draw(st.integers(0, len(REWRITES) - 1)), "pick": draw(st.integers(0, 10**6)), "prime": draw(st.booleans()),
            "access_mode": draw(st.sampled_from([None, None, None, "w+"])), "early": draw(st.sampled_from([None, None, None, None, "remove_all"]))}


class _R:
    def __init__(self, m):
        self.model = m


def resolve(op, m):
    """-> (kind, query or None, measurement or None, extra) with hit-queries resolved against model m."""
    k = op[0]
    r = _R(m)
    if k.endswith("_hit"):
        spec = op[1]
        q = lockstep.Lockstep.resolve_hit(r, spec, op[2])
        meas = lockstep.Lockstep._m_of_hit(r, spec, op[3])
        return k[:-4], q, meas, op[4:]
    if k in ("remove", "update", "probe"):
        return k, op[1], op[2], op[3:]
    return k, None, None, op[1:]


def clamp(mp, m, do):
    mp = copy.deepcopy(mp)
    if do and m.points:
        latest = max(p["time"] for p in m.points)
        if mp["time"] < latest:
            mp["time"] = latest
    return mp


def plan(op, m):
    """(callable(db) performing the API call, model after success, list of acceptable partial states)."""
    kind, q, meas, extra = resolve(op, m)
    after = m.copy()
    states = None
    a = [meas] if meas is not None else []
    if kind == "insert":
        mp = clamp(op[1], m, op[3])
        after.insert(mp)
        fn = lambda db: db.insert(gen.to_point(mp, gen.OFFSETS[op[2] % 4]), compact_key_prefixes=op[5])  # noqa: E731
    elif kind == "insert_multiple":
        mps = [copy.deepcopy(x) for x in op[1]]
        if op[3] == "inorder":
            mps.sort(key=lambda x: x["time"])
            t = m.copy()
            out = []
            for x in mps:
                x = clamp(x, t, True)
                t.insert(x)
                out.append(x)
            mps = out
        states = []
        t = m.copy()
        states.append(copy.deepcopy(t.points))
        for x in mps:
            t.insert(x)
            states.append(copy.deepcopy(t.points))
        after = t
        fn = lambda db: db.insert_multiple([gen.to_point(x) for x in mps])  # noqa: E731
    elif kind == "remove":
        after.remove(q, meas)
        fn = lambda db: db.remove(qast.build(q), *a)  # noqa: E731
    elif kind == "update":
        args = dict(extra[0])
        if isinstance(args.get("time"), list) and args["time"] and args["time"][0] == "hit_time_in_zone":
            from zoneinfo import ZoneInfo

            base = m.points[op[1][0] % len(m.points)]["time"] if (m.points and op[0] == "update_hit") else gen.T0
            args["time"] = base.astimezone(ZoneInfo(args["time"][1]))
        margs = {s: (lockstep.UPD[s][v[-1]] if isinstance(v, list) and v and v[0] == "fn" else v) for s, v in args.items() if not (isinstance(v, list) and v and v[0] in ("fn_raise", "fn_invalid"))}
        if not margs:
            margs = {"tags": {"a": "upd"}}
        after.update(q, meas, **margs)
        kw = dict(margs)
        fn = (lambda db: db.update(qast.build(q), _measurement=meas, **copy.deepcopy(kw))) if meas is not None else (lambda db: db.update(qast.build(q), **copy.deepcopy(kw)))  # noqa: E731
    elif kind == "drop":
        after.remove(None, extra[0])
        fn = lambda db: db.drop_measurement(extra[0])  # noqa: E731
    elif kind == "remove_all":
        after.remove_all()
        fn = lambda db: db.remove_all()  # noqa: E731
    elif kind == "reindex":
        fn = lambda db: db.reindex()  # noqa: E731
    elif kind == "probe":
        fn = lambda db: (db.search(qast.build(q), *a), db.count(qast.build(q), *a), db.get(qast.build(q), *a))  # noqa: E731
    else:
        raise core.HarnessError("unknown op %r" % (op,))
    if states is None:
        states = [copy.deepcopy(m.points), copy.deepcopy(after.points)]
    return fn, after, states


_HANDLES = {}


def handle_of(db, name):
    """One measurement handle per (database object, name), created at first use and kept: what it memoises is part of the live object."""
    key = (id(db), name)
    if key not in _HANDLES or _HANDLES[key][0] is not db:
        if len(_HANDLES) > 64:
            _HANDLES.clear()
        _HANDLES[key] = (db, db.measurement(name))
    return _HANDLES[key][1]


def prime_reads(db):
    """Reads issued right before the operation under test (anything cached from them must not survive the faulted operation)."""
    try:
        len(db), db.count(qast.build(READ_Q[0])), db.get_timestamps(), db.get_measurements(), len(db.measurement("m1")), db.get_field_keys()
        for name in gen.MEAS[:3]:
            h = handle_of(db, name)
            h.get_tag_keys(), h.get_field_keys(), len(h)
    except Exception:
        pass


def decode_file(path):
    with open(path, "rb") as f:
        data = f.read()
    return csvref.decode(data)


def record(case, ctx):
    """Fault-free run: returns (events of the whole run, s0, s1)."""
    from tinyflux import TinyFlux

    d = ctx.fresh_dir()
    path = os.path.join(d, "db.csv")
    w = iolayer.World(path, mode="record")
    try:
        with iolayer.installed(w):
            db = TinyFlux(path, auto_index=case["auto_index"], **open_kwargs(case))
            m = model.Model()
            try:
                for i, op in enumerate(case["ops"]):
                    fn, after, _ = plan(op, m)
                    if i == len(case["ops"]) - 1:
                        if case.get("prime"):
                            prime_reads(db)
                        s0 = len(w.events)
                    fn(db)
                    m = after
                s1 = len(w.events)
            finally:
                w.armed = False
                db.close()
        if w.blind_spots:
            raise core.HarnessError("I/O that bypassed the proxies: %r" % (w.blind_spots[:3],))
        return w.events, s0, s1
    finally:
        iolayer.uninstall()
        shutil.rmtree(d, ignore_errors=True)


def choose(events, s0, s1, pick, everything):
    pairs = []
    for k in range(s0, s1):
        pairs.append((k, "before"))
        if events[k][0] in ("flush", "fsync", "close"):
            pairs.append((k, "after"))
    if everything or len(pairs) <= 14:
        return pairs
    # stratified: one representative per (kind, role, variant) first, then fill up deterministically from `pick`
    chosen, seen = [], set()
    order = sorted(range(len(pairs)), key=lambda i: ((i * 2654435761 + pick) % 1000003))
    for i in order:
        key = (events[pairs[i][0]], pairs[i][1])
        if key not in seen:
            seen.add(key)
            chosen.append(pairs[i])
    for i in order:
        if len(chosen) >= 14:
            break
        if pairs[i] not in chosen:
            chosen.append(pairs[i])
    return sorted(chosen[:14] if len(chosen) > 14 else chosen)


def consistent_reads(db, case, ctxinfo, acc, path=None):
    """(3): answers served by the live object must agree with a scan of its own storage, or raise."""
    scan_ok = True
    try:
        own = [model.from_point(p) for p in db.all(sorted=False)]
    except Exception:
        # The object can no longer scan its storage.  Answers it still gives without raising (index-served count, len,
        # getters) are then held against what its storage - the file - really contains.
        acc.cls("live_object_cannot_scan_after_fault")
        scan_ok = False
        try:
            own = decode_file(path)
        except Exception:
            return None
    om = model.Model(own)
    for qi in case["reads"]:
        q = READ_Q[qi]
        bq = qast.build(q)
        exp = om.matches(q)
        try:
            c = db.count(bq)
            s = [model.from_point(p) for p in db.search(bq, sorted=False)]
            g = db.get(bq)
            n = len(db)
            ts = db.get_timestamps()
            ms = db.get_measurements()
            ln = len(db.measurement("m1"))
            hk = {name: (handle_of(db, name).get_tag_keys(), handle_of(db, name).get_field_keys(), len(handle_of(db, name))) for name in gen.MEAS[:3]}
        except Exception:
            acc.cls("live_read_raises_after_fault")
            continue
        acc.ev()
        problems = []
        if c != len(exp):
            problems.append("count(%s) = %r but its own storage holds %d matches" % (qast.show(q), c, len(exp)))
        if s != exp:
            problems.append("search(%s) returns %d points, a scan of its own storage gives %d" % (qast.show(q), len(s), len(exp)))
        if (model.from_point(g) if g is not None else None) != (exp[0] if exp else None):
            problems.append("get(%s) disagrees with its own storage" % qast.show(q))
        if n != len(own):
            problems.append("len(db) = %r, its own storage holds %d points" % (n, len(own)))
        if ts != [p["time"] for p in own]:
            problems.append("get_timestamps() disagrees with its own storage")
        if ms != om.get_measurements():
            problems.append("get_measurements() = %r, storage has %r" % (ms, om.get_measurements()))
        if ln != len(om.of("m1")):
            problems.append("len(measurement m1) = %r, storage has %d" % (ln, len(om.of("m1"))))
        for name, got in hk.items():
            want = (om.get_tag_keys(name), om.get_field_keys(name), len(om.of(name)))
            if got != want:
                problems.append("handle %r (kept from before the fault) reports tag keys / field keys / length %r, its storage has %r" % (name, got, want))
        if problems:
            raise Violation("silently-wrong", ctxinfo["case"], "%s: the live database answers wrongly without raising%s: %s" % (ctxinfo["where"], "" if scan_ok else " (it can no longer scan its file, whose real contents are used for comparison)", "; ".join(problems[:3])))
    return own if scan_ok else None


def run_fault(case, k, when, events, s0, ctx, acc):
    from tinyflux import TinyFlux

    d = ctx.fresh_dir()
    path = os.path.join(d, "db.csv")
    w = iolayer.World(path, mode="record", fault_at=k, fault_when=when, fault_errno=28 if k % 2 else 5)
    fcase = dict(case, fault_step=k, fault_when=when)
    kind_role = events[k]
    opname = case["ops"][-1][0]
    where = "OSError injected %s I/O call %d/%s (%s/%s) of %s" % (when, k - s0, "?", kind_role[0], kind_role[1], opname)
    info = {"case": fcase, "where": where}
    try:
        with iolayer.installed(w):
            db = TinyFlux(path, auto_index=case["auto_index"], **open_kwargs(case))
            m = model.Model()
            try:
                for op in case["ops"][:-1]:
                    fn, after, _ = plan(op, m)
                    fn(db)
                    m = after
                if case.get("prime"):
                    prime_reads(db)
                if len(w.events) != s0:
                    raise core.HarnessError("replay diverged from the recording: %d steps before the operation under test, recorded %d" % (len(w.events), s0))
                fn, after, states = plan(case["ops"][-1], m)
                # (1) the error must reach the caller
                try:
                    r = fn(db)
                    if w.fired is None:
                        raise core.HarnessError("fault at step %d did not fire (operation used %d steps)" % (k, len(w.events) - s0))
                    raise Violation("error-swallowed", fcase, "%s: the call returned %r normally - the error never reached the caller" % (where, r))
                except OSError:
                    if w.fired is None:
                        raise core.HarnessError("OSError without injected fault")
                except (Violation, core.HarnessError):
                    raise
                except Exception as e:
                    # an OSError wrapped in another exception still reaches the caller if it is chained to it
                    chain, seen_os = e, False
                    for _ in range(6):
                        chain = chain.__cause__ or chain.__context__
                        if chain is None:
                            break
                        if isinstance(chain, OSError):
                            seen_os = True
                            break
                    if not seen_os:
                        raise Violation("wrong-exception", fcase, "%s: the caller sees %s(%s) with no OSError behind it" % (where, type(e).__name__, str(e)[:150]))
                w.fault_at = None  # single fault per execution
                acc.ev()
                possible = [s for i, s in enumerate(states) if s not in states[:i]]
                if case.get("early") == "remove_all":
                    # the very next call after the failure - before anything has read the database - empties it: whatever the
                    # failed operation left in a buffer must not come back afterwards
                    try:
                        db.remove_all()
                        possible = [[]]
                        acc.cls("early_remove_all_ok")
                    except Exception:
                        possible = possible + [[]]
                        acc.cls("early_remove_all_raises")
                # (2) file right after the exception
                self_check_file(path, possible, fcase, where + ", right after the exception")
                # (3) live object
                own = consistent_reads(db, case, info, acc, path)
                if own is not None and own not in possible:
                    raise Violation("live-neither-old-nor-new", fcase, "%s: the live database now holds %d points %s - neither the old (%d) nor the new (%d) contents" % (where, len(own), lockstep.brief(own), len(states[0]), len(states[-1])))
                # follow-up insert
                ip = clamp(case["after_insert"], model.Model(possible[-1]), True)
                try:
                    db.insert(gen.to_point(ip))
                    possible = [s + [dict(ip, time=model.norm_time(ip["time"]))] for s in possible]
                    acc.cls("followup_insert_ok")
                except Exception:
                    possible = possible + [s + [dict(ip, time=model.norm_time(ip["time"]))] for s in possible]
                    acc.cls("followup_insert_raises")
                self_check_file(path, possible, fcase, where + ", after a follow-up insert")
                own = consistent_reads(db, case, info, acc, path)
                if own is not None and own not in possible:
                    raise Violation("live-neither-old-nor-new", fcase, "%s: after a follow-up insert the live database holds %d points %s, not one of the %d acceptable contents" % (where, len(own), lockstep.brief(own), len(possible)))
                # follow-up rewrite (update / remove): what an earlier faulted operation left in temporary storage must not leak into it
                rw = REWRITES[case.get("after_rewrite", 0) % len(REWRITES)]
                rewritten = [apply_rewrite(s_, rw) for s_ in possible]
                try:
                    if rw[0] == "remove":
                        db.remove(qast.build(rw[1]))
                    else:
                        db.update(qast.build(rw[1]), **copy.deepcopy(rw[2]))
                    possible = rewritten
                    acc.cls("followup_rewrite_ok")
                except Exception:
                    possible = possible + rewritten
                    acc.cls("followup_rewrite_raises")
                possible = [s_ for i_, s_ in enumerate(possible) if s_ not in possible[:i_]]
                self_check_file(path, possible, fcase, where + ", after a follow-up %s" % rw[0])
                own = consistent_reads(db, case, info, acc, path)
                if own is not None and own not in possible:
                    raise Violation("live-neither-old-nor-new", fcase, "%s: after a follow-up %s the live database holds %d points %s, not one of the %d acceptable contents" % (where, rw[0], len(own), lockstep.brief(own), len(possible)))
            finally:
                try:
                    db.close()
                except Exception:
                    acc.cls("close_raises_after_fault")
        final = self_check_file(path, possible, fcase, where + ", after close()")
        # (4) reopen
        try:
            db2 = TinyFlux(path, auto_index=case["auto_index"])
            try:
                got = [model.from_point(p) for p in db2.all(sorted=False)]
            finally:
                db2.close()
        except Exception as e:
            raise Violation("reopen-fails", fcase, "%s: reopening the database afterwards raised %r" % (where, e))
        if got != final:
            raise Violation("reopen-differs", fcase, "%s: a reopened database reads %d points, the file decodes to %d" % (where, len(got), len(final)))
        acc.ev()
    finally:
        iolayer.uninstall()
        shutil.rmtree(d, ignore_errors=True)


def self_check_file(path, possible, fcase, where):
    try:
        got = decode_file(path)
    except Exception as e:
        raise Violation("file-undecodable", fcase, "%s the file cannot be decoded: %r" % (where, e))
    if got not in possible:
        raise Violation("file-neither-old-nor-new", fcase, "%s the file holds %d points %s; acceptable: %s" % (where, len(got), lockstep.brief(got), [len(s) for s in possible]))
    return got


def run_case(case, ctx, acc, everything=False, only=None):
    events, s0, s1 = record(case, ctx)
    if s1 == s0:
        acc.cls("target_without_io")
        return 0
    pairs = choose(events, s0, s1, case["pick"], everything) if only is None else [only]
    n_nt = 0
    for k, when in pairs:
        run_fault(case, k, when, events, s0, ctx, acc)
        kind, role = events[k]
        acc.cls("fault_at:%s/%s:%s" % (kind, role, when))
        mid = any(e[0] in ("write", "replace") and e[1] in ("primary", "temp") for e in events[s0:k]) or (when == "after")
        if mid:
            acc.nt([case["ops"][-1][0], kind, role, when, k - s0])
            n_nt += 1
    acc.cls("target:" + case["ops"][-1][0])
    acc.cls("access_mode:%s" % (case.get("access_mode") or "default"))
    return n_nt


def shards(tier):
    return [{"n": 120 if tier == "quick" else 900, "all": tier == "thorough"} for _ in range(16)]


def run_shard(spec, ctx):
    acc = ctx.acc

    def check(case):
        n = run_case(case, ctx, acc, everything=spec["all"])
        if n:
            acc.sample({"auto_index": case["auto_index"], "history": histcheck.summarize(case["ops"], 6), "mid_operation_faults": n}, cap=2, every=13)

    v = core.hyp_search(check, cases(), ctx.seed, spec["n"], shrink=False)
    if v is not None:
        raise minimize(v, ctx)


def minimize(v, ctx, budget=40):
    """Drop setup operations while the same kind of failure remains (any fault position)."""
    base = {k: v.case[k] for k in ("ops", "auto_index", "reads", "after_insert", "after_rewrite", "pick", "prime", "access_mode", "early") if k in v.case}
    ops = list(base["ops"])
    best = v
    i = 0
    while i < len(ops) - 1 and budget > 0:
        cand = dict(base, ops=ops[:i] + ops[i + 1:])
        budget -= 1
        try:
            run_case(cand, core.Ctx("minimize", 0, ctx.known, ctx.scratch, 0), core.Acc(), everything=True)
            i += 1
        except Violation as w:
            if w.sub == v.sub:
                ops = cand["ops"]
                best = w
            else:
                i += 1
        except Exception:
            i += 1
    return best


def replay(sub, case, ctx):
    base = {k: case[k] for k in ("ops", "auto_index", "reads", "after_insert", "after_rewrite", "pick", "prime", "access_mode", "early") if k in case}
    if "fault_step" in case:
        events, s0, s1 = record(base, ctx)
        k = case["fault_step"]
        if s0 <= k < s1:
            run_fault(base, k, case["fault_when"], events, s0, ctx, ctx.acc)
            return
    run_case(base, ctx, ctx.acc, everything=True)
