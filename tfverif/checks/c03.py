"""C03 — update changes exactly the matching points, with documented merge semantics.

Lock-step machinery with an update-heavy mix: update(query, ...) through database / handles with and without measurement scope,
update_all, Measurement.update_all; every argument slot static or a registry callable; unset_tags / unset_fields as string or list,
possibly naming keys set by the same call.  Oracle (reference model written from docs/updating-data.rst): time and measurement
replaced, tags/fields merged key by key, unset wins, return value = number of points whose content changed, everything else and the
storage order untouched.  Invalid static argument sets must raise and change nothing.
"""
from .. import histcheck, lockstep

ID = "C03"
LEVEL = "exploration"
RULE = (
    "Hypothesis-generated histories with ~35% update operations (1-3 argument slots out of time/measurement/tags/fields/unset_tags/unset_fields, each static or callable; "
    "queries from the grammar or derived from a stored point; database, handle, update_all, handle.update_all) on 4 configurations; contents and return value compared with "
    "the model after every step. Non-trivial = history containing an update that selects a strict non-empty subset of the stored points and changes a strict non-empty "
    "subset of the selection, or a changing update followed by a probe; distinct by operation list."
)
ASSUMPTIONS = ["update callables are pure functions from the fixed registry; measurement names non-empty; NaN excluded"]


def hook(ls, op):
    if op[0] in ("update", "update_hit"):
        args = op[3] if op[0] == "update" else op[4]
        for s, v in args.items():
            ls.ctx.acc.cls("arg:%s:%s" % (s, "callable" if isinstance(v, list) and v and v[0] == "fn" else "static"))
        if "unset_tags" in args and "tags" in args or "unset_fields" in args and "fields" in args:
            ls.ctx.acc.cls("arg:unset_with_set_same_call")
        ls.ctx.acc.cls("via:" + op[-1])
        if "update_changed" in ls.flags:
            ls.flags.add("_changed")
    if "_changed" in ls.flags and op[0] in ("probe", "probe_hit", "probe_twin"):
        ls.flags.add("probe_after_changing_update")


def classify(ls, ops):
    return bool(ls.flags & {"update_strict", "probe_after_changing_update"})


HOOKS = (hook,)
# a fifth configuration with a non-default text encoding and csv dialect: a rewrite stages the surviving rows in a second file,
# which has to be written and read back under the same storage options as the database itself (utf-16 can encode every generated
# string; every generated string survives Python's csv with a semicolon delimiter)
CONFIGS5 = lockstep.CONFIGS + [("csv", True, {"encoding": "utf-16", "delimiter": ";"}, ":utf16;")]
run_shard = histcheck.make_run_shard("update", classify, HOOKS, configs=CONFIGS5)
replay = histcheck.make_replay(HOOKS, configs=CONFIGS5)


def shards(tier):
    # plus one shard of a few large data sets (110-330 points: storage positions beyond 256, where small-int identity ends)
    return histcheck.std_shards(tier, 700, 6000, bulk=2 if tier == "thorough" else 0) + [{"n": 8 if tier == "quick" else 60, "bulk": True, "bulk_points": 330, "max_ops": 25}]
