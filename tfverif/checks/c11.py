"""C11 — an operation that raises leaves the database as it was, and still usable.

Lock-step machinery with a fault-heavy operation mix.  Faulting operations, each with a generated fault position:
insert_multiple with a non-Point, or a Point that CSV storage cannot encode (lone surrogate: the failure strikes inside the storage append), at position k; insert of a non-Point / unencodable / unserializable Point; update / update_all / handle.update whose callable (time,
measurement, tags or fields) raises on the j-th selected point or returns an invalid value there; invalid static arguments (non-query,
no arguments, all-falsy arguments, wrongly typed time / measurement / tags / fields / unset lists); search with a non-query; select with bad keys.
Oracle: the call raises; contents afterwards equal the model before the call (insert_multiple: plus the k points before the offending
element) on every configuration; every valid index still equals a rebuild from storage (C06 oracle); the history then continues with
ordinary operations under the C01 oracle.
"""
from .. import histcheck
from . import c06

ID = "C11"
LEVEL = "fault_enumeration"
RULE = (
    "Hypothesis-generated histories in which ~40% of the operations are made to raise (fault kinds above; fault position k in 0..4 / j in 1..4 generated, so every position "
    "within small inputs is reached), interleaved with ordinary inserts, removes, updates, reads, reindex and reopen on {CSV, memory} x {auto_index on, off}; after every step contents "
    "are compared with the model and every valid index with a rebuild. Non-trivial = history with a fault strictly inside the affected range (>= 1 point inserted before the bad element, "
    "or callable failing on the 2nd or later selected point) that is followed by at least one read and one write; distinct by operation list."
)
ASSUMPTIONS = [
    "known finding KF-mem-update-partial: on MemoryStorage, update faults that strike after something was already assigned are executed on the CSV configurations only (counted in excluded_known)",
    "faults are Python exceptions raised by generated callables or by tinyflux's own validation; I/O errors are C13's subject",
]


def hook(ls, op):
    if "raised_mid" in ls.flags:
        if op[0] in ("probe", "probe_hit", "probe_twin", "getters"):
            ls.flags.add("_read_after")
        if op[0] in ("insert", "insert_multiple", "remove", "remove_hit", "update", "update_hit", "drop", "remove_all") and "_armed" in ls.flags:
            ls.flags.add("_write_after")
        ls.flags.add("_armed")
    c06.eq_hook(ls, op)
    if len(ls.log) and _len_observed(ls):
        # every third history also asks each database for its size after every step (before and after the faults): whatever
        # bookkeeping answers len() must not count an insert that raised
        for real in ls.reals:
            n = ls.call(real, "len", len, real.db)
            if n != len(ls.model.points):
                ls.fail("len-after-step", real, "len(db) = %r after %s, the model holds %d points" % (n, op[0], len(ls.model.points)))
        ls.ctx.acc.cls("len_observed_steps")
    if "raised_in_storage" in ls.flags:
        ls.ctx.acc.cls("hist_has:raised_in_storage_append")
    for f in ("raised", "raised_mid", "raised_edge"):
        if f in ls.flags:
            ls.ctx.acc.cls("hist_has:" + f)
    if op[0].startswith("bad_"):
        ls.ctx.acc.cls("fault:" + op[0] + ":" + str(op[1]))
    if op[0] == "insert_multiple" and op[5] is not None:
        ls.ctx.acc.cls("fault:insert_multiple_bad_at_%d_of_%d" % (min(op[5], len(op[1])), len(op[1])))


def _len_observed(ls):
    first = ls.log[0]
    return (len(first[1]) if len(first) > 1 and isinstance(first[1], (list, dict, str)) else len(first)) % 3 == 0


def classify(ls, ops):
    return {"raised_mid", "_read_after", "_write_after"} <= ls.flags


HOOKS = (hook,)
run_shard = histcheck.make_run_shard("raise", classify, HOOKS)
replay = histcheck.make_replay(HOOKS)


def shards(tier):
    return histcheck.std_shards(tier, 350, 3000)
