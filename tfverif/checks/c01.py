"""C01 — query results equal exactly the stored points that satisfy the query.

Model-based differential: every generated history is applied to the reference model and, in lock-step, to
{CSV, memory} x {auto_index on, off}; every probe compares search (sorted and unsorted), count, contains, get
and select (through the database and through Measurement handles) with the model's matches, and the full
contents are compared after every step.  Histories come from two generators: Hypothesis lists of operations (state-dependent
details resolved at execution time) and a Hypothesis RuleBasedStateMachine whose rules draw from Bundles of inserted points.
"""
from .. import histcheck, qast

ID = "C01"
LEVEL = "exploration"
RULE = (
    "Hypothesis-generated histories (insert / insert_multiple in- and out-of-order, update, update_all, remove, remove_all, drop_measurement, reindex, reopen, "
    "probes) over small overlapping pools of times, measurements, tags and fields, plus bulk cases (up to 25 points then 6-14 probes); queries from the DSL grammar "
    "up to depth 3; every probe checks search(sorted/unsorted), count, contains, get, select against the reference model on 4 configurations. "
    "Non-trivial = history with at least one probe whose match set is a strict non-empty subset of the stored points AND that follows a remove/update/reset "
    "or an out-of-order insert; distinct by the whole operation list."
)
ASSUMPTIONS = ["measurement names are non-empty; query right-hand sides well-typed; user functions from the fixed registry; NaN excluded"]


def classify(ls, ops):
    f = ls.flags
    return "probe_some" in f and bool(f & {"remove_partial", "update_changed", "reset", "out_of_order"})


def probe_hook(ls, op):
    if op[0] in ("probe", "probe_hit", "probe_twin"):
        if ls.last_probe == "some":
            ls.flags.add("probe_some")
        for ft in qast.features(ls.last_query):
            ls.ctx.acc.cls("q:" + ft)


HOOKS = (probe_hook,)
_list_shard = histcheck.make_run_shard("query", classify, HOOKS)
replay = histcheck.make_replay(HOOKS)


def run_shard(spec, ctx):
    if spec.get("kind") == "stateful":
        # second generator: a Hypothesis rule-based state machine whose rules draw from Bundles of inserted points
        from .. import machine

        v = machine.run(ctx, spec["n"], spec["steps"], HOOKS, classify)
        if v is not None:
            raise histcheck.minimize(v, ctx, HOOKS)
        return
    return _list_shard(spec, ctx)


def shards(tier):
    s = histcheck.std_shards(tier, 300, 4000, bulk=4)
    if tier == "quick":
        s[-1] = {"kind": "stateful", "n": 120, "steps": 25}
    else:
        s += [{"kind": "stateful", "n": 1500, "steps": 50} for _ in range(3)]
    return s
