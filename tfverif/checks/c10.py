"""C10 — a Measurement handle is exactly the database restricted to that measurement.

Lock-step machinery with every operation routed at random through db.op(..., measurement=name), a fresh db.measurement(name) handle, or a handle
captured earlier in the history (before the data changed, before drop_measurement / remove_all, before the measurement existed); both routes must
agree with the reference model restricted to `name`, so they agree with each other; contents of all other measurements are compared after every step.
"""
from .. import histcheck

ID = "C10"
LEVEL = "exploration"
RULE = (
    "Hypothesis-generated histories where reads, getters, len/iter/all, insert, insert_multiple, update, update_all, remove, remove_all go through the database with a measurement "
    "argument, a fresh handle, or a previously captured handle (chosen per operation) on 4 configurations; results and full contents compared with the model after every step. "
    "Non-trivial = history with at least one handle-routed operation executed while the database holds >= 2 measurements sharing a tag or field key, and at least one "
    "operation through a handle captured before an earlier drop/remove_all/reset; distinct by operation list."
)
ASSUMPTIONS = ["measurement names non-empty (the name '' is outside the generated domain, see DESIGN.md)"]


def hook(ls, op):
    via = op[-1] if isinstance(op[-1], str) else None
    if op[0] in ("insert", "insert_multiple"):
        via = op[4]
    if via in ("handle", "old_handle", "handle_update_all", "db_meas"):
        ls.ctx.acc.cls("routed:" + via + ":" + op[0].replace("_hit", ""))
        pts = ls.model.points
        ms = {p["measurement"] for p in pts}
        if len(ms) >= 2:
            keysets = {}
            for p in pts:
                keysets.setdefault(p["measurement"], set()).update(("t", k) for k in p["tags"])
                keysets[p["measurement"]].update(("f", k) for k in p["fields"])
            names = list(keysets)
            if any(keysets[a] & keysets[b] for i, a in enumerate(names) for b in names[i + 1 :]):
                ls.flags.add("handle_op_on_shared_keys")
        if via == "old_handle" and ls.flags & {"reset", "remove_partial", "remove_all_matched"}:
            ls.flags.add("old_handle_after_removal")


def classify(ls, ops):
    return "handle_op_on_shared_keys" in ls.flags and "old_handle_after_removal" in ls.flags


HOOKS = (hook,)
run_shard = histcheck.make_run_shard("handle", classify, HOOKS)
replay = histcheck.make_replay(HOOKS)


def shards(tier):
    return histcheck.std_shards(tier, 700, 6000)
