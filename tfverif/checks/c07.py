"""C07 — exploration getters and lengths report exactly what is stored.

Lock-step machinery with a getter-heavy mix: get_measurements, get_tag_keys, get_tag_values (all / selected / unknown / duplicate keys),
get_field_keys, get_field_values, get_timestamps, len, iteration, all(sorted / unsorted), and the Measurement-handle versions, for
measurement filter in {none, present, absent}; compared with the reference model (documented orders: sorted keys and names, None last in
tag values, insertion order for field values and timestamps) with a valid index and without one, on CSV (also with flush_on_insert=False) and memory.
"""
from .. import histcheck, lockstep

ID = "C07"
LEVEL = "exploration"
RULE = (
    "Hypothesis-generated histories with ~35% getter operations (each compares 9 getters / lengths / iterations with the model, through the database or a handle) on "
    "4 configurations; pool data deliberately mixes the same tag/field keys over several measurements with different values, None and '' values and strings with line breaks. "
    "Non-trivial = history where a getter call with a measurement filter runs on contents in which some tag or field key of that measurement also occurs in another "
    "measurement, or where len() runs on contents holding a multi-line value; distinct by operation list."
)
ASSUMPTIONS = ["measurement names non-empty; NaN excluded"]


def hook(ls, op):
    if op[0] != "getters":
        return
    m = op[1]
    pts = ls.model.points
    if m is not None:
        mine = [p for p in pts if p["measurement"] == m]
        other = [p for p in pts if p["measurement"] != m]
        keys_mine = {("t", k) for p in mine for k in p["tags"]} | {("f", k) for p in mine for k in p["fields"]}
        keys_other = {("t", k) for p in other for k in p["tags"]} | {("f", k) for p in other for k in p["fields"]}
        if keys_mine & keys_other:
            ls.flags.add("shared_key_filtered_getter")
        ls.ctx.acc.cls("getters_filter_" + ("present" if mine else "absent"))
    else:
        ls.ctx.acc.cls("getters_filter_none")
    if any(isinstance(v, str) and "\n" in v for p in pts for v in p["tags"].values()):
        ls.flags.add("len_with_multiline_value")
    ls.ctx.acc.cls("getters_via_" + op[4])


def classify(ls, ops):
    return bool(ls.flags & {"shared_key_filtered_getter", "len_with_multiline_value"})


HOOKS = (hook,)
# a fifth configuration: CSV without flushing on insert (rows may still sit in the write buffer when a getter runs)
CONFIGS5 = lockstep.CONFIGS + [("csv", False, {"flush_on_insert": False}, ":noflush")]
run_shard = histcheck.make_run_shard("getters", classify, HOOKS, configs=CONFIGS5)
replay = histcheck.make_replay(HOOKS, configs=CONFIGS5)


def shards(tier):
    return histcheck.std_shards(tier, 700, 6000, bulk=2 if tier == "thorough" else 0)
