"""C04 — after every completed operation the CSV file alone holds the current contents.

Generated histories on a CSV database opened with a generated storage configuration
{flush_on_insert} x {encoding: default, utf-8, utf-16, latin-1} x {csv dialect options} x {auto_index} x {access_mode r+, w+} (compact / default key prefixes
mixed per insert).  After every returning operation (flush_on_insert=True) - or after close() (flush_on_insert=False, as the statement
says) - the file bytes are decoded by the independent reader csvref and by a fresh TinyFlux(path, access_mode='r', same configuration),
and both must equal the reference model's contents in insertion order; the live instance is compared as well.
"""
import csv
import os
import shutil

from hypothesis import strategies as st

from .. import core, csvref, gen, gen_ops, histcheck, lockstep, model
from ..core import Violation

ID = "C04"
LEVEL = "exploration"
RULE = (
    "Hypothesis-generated (configuration, history) pairs: configuration = flush_on_insert x encoding {None, utf-8, utf-16, latin-1} x 11 csv dialect option sets (incl. named dialects) x auto_index x access_mode {r+, w+}; history = inserts "
    "(compact or default prefixes per insert), insert_multiple, update, remove, drop_measurement, remove_all, reindex, reopen, and probes whose get/contains stop reading early; string pool with "
    "delimiters, quotes, CR, LF, CRLF, tabs, non-ASCII (restricted to what the encoding can encode) and occasional > 8 KiB values. After each operation the file is decoded independently and by a fresh "
    "read-only instance and compared with the model. Non-trivial = history with >= 1 rewrite (update/remove that changed something) under a non-default configuration, or an insert after an "
    "early-stopping read on a file larger than one I/O buffer; distinct by (configuration, operation list)."
)
ASSUMPTIONS = [
    "strings are drawn from what the configured encoding can encode and what Python's csv module itself round-trips under the dialect (others are outside the domain and discarded, counted)",
    "with flush_on_insert=False the file is only required to be current after close(), as the statement says",
]

DIALECTS = {
    "default": {},
    "semicolon": {"delimiter": ";"},
    "tab": {"delimiter": "\t"},
    "pipe": {"delimiter": "|"},
    "singlequote": {"quotechar": "'"},
    "quote_all": {"quoting": csv.QUOTE_ALL},
    "quote_nonnumeric": {"quoting": csv.QUOTE_NONNUMERIC},
    "escapechar": {"doublequote": False, "escapechar": "\\"},
    "lf_terminator": {"lineterminator": "\n"},
    "named_unix": {"dialect": "unix"},
    "named_excel_tab": {"dialect": "excel-tab"},
}
ENCODINGS = [None, "utf-8", "utf-16", "latin-1"]
STRINGS = ["x", "x", "y", "a,b", 'q"q', "x\ny", "x\r\ny", "x\ry", "é", "ü;ö", "a;b", "a\tb", "a|b", "it's", "back\\slash", " lead", "trail ", "", "日本", "‑dash", "x" * 9000, "a\x0bb", "a\x0cb\x1c", "a\x85b", "a\u2028b\u2029", "__none", "_none_", '"lead', "f_3", "_field_x", "t_y", "_tag_z"]
LATIN1 = [s for s in STRINGS if all(ord(c) < 256 for c in s)]


@st.composite
def wide_pool_points(draw, strings):
    t = draw(gen.times())
    # keys include look-alikes of the key prefixes themselves
    tk = draw(st.lists(st.sampled_from(["a", "a", "b", "t x", "k,1", "t_k", "f_k", "_tag_x", "é"] if "é" in strings else ["a", "a", "b", "t x", "k,1", "t_k", "f_k", "_tag_x"]), max_size=2, unique=True))
    fk = draw(st.lists(st.sampled_from(gen.W_FKEYS + ["f_k", "t_k", "_field_x"]), max_size=2, unique=True))
    sv = st.sampled_from(strings)
    return {
        "time": t,
        "measurement": draw(st.sampled_from(["m1", "m1", "m2", "a,b", "x\ny"] + [s for s in strings[5:12] if s])),
        "tags": {k: draw(st.one_of(st.none(), sv, sv)) for k in tk},
        "fields": {k: draw(st.sampled_from(gen.W_FVALS)) for k in fk},
    }


@st.composite
def cases(draw, max_ops):
    enc = draw(st.sampled_from(ENCODINGS))
    strings = LATIN1 if enc == "latin-1" else STRINGS
    cfg = {"flush_on_insert": draw(st.sampled_from([True, True, False])), "encoding": enc, "dialect": draw(st.sampled_from(sorted(DIALECTS))), "auto_index": draw(st.booleans()), "access_mode": draw(st.sampled_from(["r+", "r+", "r+", "w+"]))}
    pts = wide_pool_points(strings)
    # one case in three starts from 9-16 points: positions above 8 are where orderings of small-int sets stop being ascending
    seed_pts = draw(st.lists(pts, min_size=1, max_size=6) | st.lists(pts, min_size=1, max_size=6) | st.lists(pts, min_size=9, max_size=16))
    ops = [["insert_multiple", seed_pts, 0, draw(st.sampled_from(["inorder", "asis"])), "db", None, "m1"]]
    one = st.one_of(
        st.tuples(st.just("insert"), pts, st.integers(0, 3), st.booleans(), st.sampled_from(["db", "db_meas", "handle"]), st.booleans()).map(list),
        st.tuples(st.just("insert"), pts, st.integers(0, 3), st.booleans(), st.sampled_from(["db", "db_meas", "handle"]), st.booleans()).map(list),
        st.tuples(st.just("insert_multiple"), st.lists(pts, max_size=4), st.integers(0, 3), st.sampled_from(["inorder", "asis", "asis_recycled", "asis_reading"]), st.just("db"), st.none(), st.just("m1")).map(list),
        gen_ops.op_remove_hit(), gen_ops.op_remove_hit(), gen_ops.op_update_hit(), gen_ops.op_update_hit(), gen_ops.op_update(), gen_ops.op_remove(),
        st.tuples(st.just("insert_reuse"), pts, st.booleans()).map(list),
        gen_ops.op_drop(), gen_ops.op_remove_all(), gen_ops.op_reindex(), gen_ops.op_reopen(), gen_ops.op_reopen(),
        gen_ops.op_probe_hit(), gen_ops.op_probe_hit(), gen_ops.op_probe(), gen_ops.op_getters(),
    )
    ops += draw(st.lists(one, min_size=1, max_size=max_ops))
    return {"cfg": cfg, "ops": ops}


def storage_kwargs(cfg):
    kw = dict(DIALECTS[cfg["dialect"]])
    kw["flush_on_insert"] = cfg["flush_on_insert"]
    if cfg["encoding"] is not None:
        kw["encoding"] = cfg["encoding"]
    if cfg.get("access_mode", "r+") != "r+":
        kw["access_mode"] = cfg["access_mode"]
    return kw


def file_check(ls, real, cfg, case, when):
    """The file alone must hold the model's contents."""
    from tinyflux import TinyFlux

    exp = ls.model.points
    with open(real.path, "rb") as f:
        data = f.read()
    try:
        ref = csvref.decode(data, cfg["encoding"], DIALECTS[cfg["dialect"]])
    except Exception as e:
        raise Violation("file-undecodable", case_of(ls, cfg), "%s: the independent reader cannot decode the file (%d bytes): %r" % (when, len(data), e))
    if ref != exp:
        raise Violation("file-contents", case_of(ls, cfg), "%s: file decodes (independent reader) to %d points %s, current contents are %d points %s" % (when, len(ref), lockstep.brief(ref), len(exp), lockstep.brief(exp)))
    kw = storage_kwargs(cfg)
    kw.pop("access_mode", None)
    try:
        fresh = TinyFlux(real.path, access_mode="r", auto_index=cfg["auto_index"], **kw)
        try:
            got = [model.from_point(p) for p in fresh.all(sorted=False)]
        finally:
            fresh.close()
    except Exception as e:
        raise Violation("file-unreadable", case_of(ls, cfg), "%s: a fresh read-only TinyFlux on the file raised %r" % (when, e))
    if got != exp:
        raise Violation("file-contents", case_of(ls, cfg), "%s: a fresh TinyFlux reads %d points %s, current contents are %d points %s" % (when, len(got), lockstep.brief(got), len(exp), lockstep.brief(exp)))
    ls.ctx.acc.ev(2)


def case_of(ls, cfg):
    return {"cfg": cfg, "ops": ls.log}


def row_strings_ok(case):
    """Harness self-check: every string of the case must survive Python's csv under the dialect, and the encoding."""
    d = DIALECTS[case["cfg"]["dialect"]]
    enc = case["cfg"]["encoding"] or csvref.default_encoding()
    def strings(x):
        if isinstance(x, str):
            yield x
        elif isinstance(x, dict):
            for k, v in x.items():
                yield from strings(k)
                yield from strings(v)
        elif isinstance(x, (list, tuple)):
            for y in x:
                yield from strings(y)

    # every string anywhere in the history: inserted points, static update arguments, query right-hand sides (harmless)
    strs = sorted(set(strings(case["ops"])))
    try:
        "".join(strs).encode(enc)
    except UnicodeError:
        return False
    return csvref.csv_roundtrips(["_tag_" + s for s in strs], d)


def run_case(case, ctx, acc):
    cfg = case["cfg"]
    kw = storage_kwargs(cfg)
    ls = lockstep.Lockstep(ctx, configs=[("csv", cfg["auto_index"], kw, ":" + cfg["dialect"])])
    real = ls.reals[0]
    real.kwargs.pop("access_mode", None)  # opening with "w+" truncates by definition, so re-opens inside the history use the default mode
    info = {"rewrites": 0, "early_then_insert": False, "big": False}

    def post(ls_, op):
        # runs right after the operation returned, before the harness reads anything through the live instance
        if cfg["flush_on_insert"]:
            file_check(ls_, real, cfg, case, "after %s (step %d)" % (op[0], len(ls_.log)))
        elif op[0] == "reopen":
            file_check(ls_, real, cfg, case, "after close+reopen (step %d)" % len(ls_.log))
        if op[0] in ("remove", "remove_hit", "update", "update_hit", "drop") and ls_.flags & {"remove_partial", "update_changed"}:
            info["rewrites"] += 1
        if op[0] in ("probe", "probe_hit", "probe_twin") and os.path.getsize(real.path) > 8192:
            info["_early"] = True
        elif op[0] in ("insert", "insert_multiple") and info.get("_early"):
            info["early_then_insert"] = True
        elif op[0] not in ("getters",):
            info["_early"] = False

    ls.post_hooks = [post]
    try:
        ls.run(case["ops"])  # closes the database at the end
        file_check(ls, real, cfg, case, "after close()")
    except Violation as v:
        v.case = {"cfg": cfg, "ops": v.case.get("ops", ls.log)}
        raise
    finally:
        shutil.rmtree(ls.dir, ignore_errors=True)
    return info


def shards(tier):
    return [{"n": 170 if tier == "quick" else 2500, "max_ops": 14 if (tier == "quick" or i % 2) else 40} for i in range(16)]


def run_shard(spec, ctx):
    acc = ctx.acc

    def check(case):
        if not row_strings_ok(case):
            acc.cls("csv_self_check_discards")
            return
        info = run_case(case, ctx, acc)
        cfg = case["cfg"]
        acc.cls("cfg_encoding_%s" % cfg["encoding"])
        acc.cls("cfg_flush_%s" % cfg["flush_on_insert"])
        acc.cls("cfg_dialect_%s" % cfg["dialect"])
        if info["rewrites"]:
            acc.cls("rewrite_under_encoding_%s_flush_%s" % (cfg["encoding"], cfg["flush_on_insert"]))
        nondefault = cfg["encoding"] is not None or cfg["dialect"] != "default" or not cfg["flush_on_insert"]
        if (info["rewrites"] and nondefault) or info["early_then_insert"]:
            acc.nt(case)
            if info["early_then_insert"]:
                acc.cls("insert_after_early_stopping_read_on_big_file")
            acc.sample({"cfg": cfg, "history": histcheck.summarize(case["ops"], 8)}, cap=2, every=41)

    v = core.hyp_search(check, cases(spec["max_ops"]), ctx.seed, spec["n"], shrink=False)
    if v is not None:
        raise minimize(v, ctx)


def minimize(v, ctx, budget=80):
    cfg = v.case["cfg"]
    ops = list(v.case["ops"])
    best = v
    i = 0
    while i < len(ops) - 1 and budget > 0:
        cand = ops[:i] + ops[i + 1:]
        budget -= 1
        try:
            run_case({"cfg": cfg, "ops": cand}, core.Ctx("minimize", 0, ctx.known, ctx.scratch, 0), core.Acc())
            i += 1
        except Violation as w:
            if w.sub == v.sub:
                ops = list(w.case["ops"])
                best = w
            else:
                i += 1
        except Exception:
            i += 1
    return best


def replay(sub, case, ctx):
    run_case(case, ctx, ctx.acc)
