"""C09 — query expressions mean what the DSL says and never fail on valid points.

Oracles: (a) truth value == qast.ref (independent evaluator written from the docs / the statement);
(b) connective laws against the implementation's *own* operand results: (~q)(p) == not q(p),
(q&r)(p) == q(p) and r(p), (q|r)(p) == q(p) or r(p); (c) totality: evaluation never raises.
Exhaustive: every leaf of the vocabulary on every point of the 19 440-point universe; every depth-2
expression (~l, l&l', l|l') over the vocabulary on every point of U that varies the slots the operands
address; depth-3 expressions over a 12-leaf core (all of them in the thorough tier, a slice in quick).
Generated: Hypothesis expressions up to depth 6 on random pool points.
"""
import itertools

from hypothesis import strategies as st

from .. import core, gen, qast, universe
from ..core import Violation

ID = "C09"
LEVEL = "exploration"
RULE = (
    "exhaustive finite core: (1) every vocabulary leaf (every query type x every operator x rhs None/empty/zero/bound-equal, exists, both regex "
    "methods with flags, test with/without args, map, noop, two-key paths, function-first paths) on every point of the universe "
    "U = tags{a,b}x{missing,None,'','x','X','xy'} x fields{a,f}x{missing,None,0,-1,1,2.5} x 3 measurements x 5 times (19 440 points; two of the five times lie in the year 2600, one microsecond apart); "
    "(2) every ~l, l&l', l|l' over the vocabulary on all points of U varying the slots the operands read; (3) depth-3 expressions over a 12-leaf core; "
    "plus Hypothesis expressions up to depth 6 on pool points. Non-trivial = (expression, point) where an addressed attribute is missing, None, "
    "empty, zero or equal to the comparison bound; exhaustive parts are distinct by construction, generated cases by digest of (expression, point)."
)
ASSUMPTIONS = [
    "user test functions are total and return bool, map functions may raise (a raising map is an unresolvable path = False); NaN excluded",
    "TimeQuery right-hand sides are timezone-aware (docs/querying-data.rst)",
]

CORE12 = None


def tree(q, combined=False):
    """Build q bottom-up so that a compound is composed from the very operand objects we also evaluate.
    combined: see qast.build (test functions with non-bool results are wrapped when they are operands of & or |)."""
    if q[0] == "leaf":
        try:
            return (qast.build(q, combined), ())
        except Exception as e:
            raise Violation("build", {"q": q, "p": None}, "building the well-formed query %s through the DSL raised %r" % (qast.show(q), e))
    kids = tuple(tree(s, combined or q[0] != "not") for s in q[1:])
    if q[0] == "not":
        b = ~kids[0][0]
    elif q[0] == "and":
        b = kids[0][0] & kids[1][0]
    else:
        b = kids[0][0] | kids[1][0]
    return (b, kids)


def ev(b, q, p, P):
    try:
        return bool(b(P))
    except Exception as e:
        raise Violation("totality", {"q": q, "p": p}, "evaluating %s on %r raised %r (a well-formed query on a valid point must not raise)" % (qast.show(q), p, e))


def check_tree(t, q, p, P):
    """All three oracles on q and, recursively, on its operands. Returns the truth value."""
    b, kids = t
    got = ev(b, q, p, P)
    exp = qast.ref(q, p)
    if q[0] != "leaf":
        vals = [check_tree(k, s, p, P) for k, s in zip(kids, q[1:])]
        law = (not vals[0]) if q[0] == "not" else (vals[0] and vals[1]) if q[0] == "and" else (vals[0] or vals[1])
        if got != law:
            raise Violation("connective", {"q": q, "p": p}, "%s on %r = %r but its operands evaluate to %r" % (qast.show(q), p, got, vals))
    if got != exp:
        raise Violation("meaning", {"q": q, "p": p}, "%s on %r = %r, documented meaning gives %r" % (qast.show(q), p, got, exp))
    return got


def check_qp(q, p):
    return check_tree(tree(q), q, p, gen.to_point(p))


def core12(vocab):
    want = [
        ("time", "<"), ("meas", "=="), ("tag", "=="), ("tag", "!="), ("tag", "exists"), ("tag", "matches"),
        ("field", ">"), ("field", "=="), ("field", "exists"), ("field", "noop"), ("tag", "test"), ("field", "double"),
    ]
    out = []
    for attr, what in want:
        for leaf, slots in vocab:
            t = leaf[3]
            tag = t[1] if t[0] == "cmp" else t[0]
            if leaf[1] == attr and (tag == what or (what == "double" and ["map", "double"] in leaf[2])) and (leaf, slots) not in out:
                if what in ("==", "!=", ">", "<") and (t[2] is None or any(part[0] == "map" for part in leaf[2])):
                    continue
                out.append((leaf, slots))
                break
    assert len(out) == 12, len(out)
    return out


def shards(tier):
    s = [{"kind": "leaf", "part": k, "of": 4} for k in range(4)]
    s += [{"kind": "pairs", "part": k, "of": 8} for k in range(8)]
    nd3 = 16 if tier == "thorough" else 2
    s += [{"kind": "depth3", "part": k, "of": 16, "step": 1 if tier == "thorough" else 23} for k in range(nd3)]
    s += [{"kind": "hyp", "n": 1500 if tier == "quick" else 20000} for _ in range(6 if tier == "quick" else 16)]
    if tier == "thorough":
        s += [{"kind": "fuzz", "runs": 200000} for _ in range(2)]
    return s


def run_shard(spec, ctx):
    acc = ctx.acc
    vocab = universe.vocabulary()
    if spec["kind"] == "leaf":
        pts = [(p, gen.to_point(p)) for p in universe.all_points()]
        for i, (leaf, slots) in enumerate(vocab):
            if i % spec["of"] != spec["part"]:
                continue
            t = tree(leaf)
            for p, P in pts:
                check_tree(t, leaf, p, P)
                acc.ev()
                if universe.hard_value(leaf, slots, p):
                    acc.nontrivial_enum += 1
            acc.cls("leaf:" + leaf[1])
            acc.sample({"leaf": qast.show(leaf), "point": pts[(i * 997) % len(pts)][0], "truth": qast.ref(leaf, pts[(i * 997) % len(pts)][0])}, cap=2)
        acc.extra = {"leaf_part": spec["part"], "universe": len(pts), "vocabulary": len(vocab)}
        return

    if spec["kind"] == "pairs":
        built = [tree(leaf) for leaf, _ in vocab]
        n = 0
        for i, (l1, s1) in enumerate(vocab):
            if i % spec["of"] != spec["part"]:
                continue
            exprs = [(["not", l1], (built[i][0].__invert__(), (built[i],)), s1)]
            for j, (l2, s2) in enumerate(vocab):
                exprs.append((["and", l1, l2], (built[i][0] & built[j][0], (built[i], built[j])), s1 + s2))
                exprs.append((["or", l1, l2], (built[i][0] | built[j][0], (built[i], built[j])), s1 + s2))
            for q, t, slots in exprs:
                combos = set()
                for p in universe.points_varying(slots):
                    P = gen.to_point(p)
                    check_tree(t, q, p, P)
                    acc.ev()
                    n += 1
                    if q[0] != "not":
                        combos.add((qast.ref(q[1], p), qast.ref(q[2], p)))
                    hard = any(universe.hard_value(l, s, p) for l, s in ((q[1], s1),) + (((q[2], slots[len(s1):]),) if q[0] != "not" else ()))
                    if hard:
                        acc.nontrivial_enum += 1
                acc.cls("depth2_exprs")
                if q[0] != "not":
                    acc.cls("operand_truth_combos_%d" % len(combos))
            if i % 29 == 0:
                acc.sample({"expr": qast.show(exprs[-1][0]), "points": "all of U varying slots %s" % (list(exprs[-1][2]),)}, cap=2)
        acc.extra = {"pairs_part": spec["part"]}
        return

    if spec["kind"] == "depth3":
        c12 = core12(vocab)
        d1 = [(l, tree(l), s) for l, s in c12]
        d2 = list(d1)
        for l, t, s in d1:
            d2.append((["not", l], (~t[0], (t,)), s))
        for (l1, t1, s1), (l2, t2, s2) in itertools.product(d1, d1):
            d2.append((["and", l1, l2], (t1[0] & t2[0], (t1, t2)), s1 + s2))
            d2.append((["or", l1, l2], (t1[0] | t2[0], (t1, t2)), s1 + s2))
        # 100-point sub-universe: all points varying tag.a x field.a plus the defaults of the rest
        pts = [(p, gen.to_point(p)) for p in universe.points_varying(["tag.a", "field.a", "meas"])][:108]
        k = 0
        step = spec["step"]
        for idx, ((q1, t1, s1), (q2, t2, s2)) in enumerate(itertools.product(d2, d2)):
            if idx % spec["of"] != spec["part"] or (idx // spec["of"]) % step:
                continue
            for op in ("and", "or"):
                q = [op, q1, q2]
                t = ((t1[0] & t2[0]) if op == "and" else (t1[0] | t2[0]), (t1, t2))
                for p, P in pts:
                    check_tree(t, q, p, P)
                    acc.ev()
                acc.nontrivial_enum += 1
                k += 1
            if idx % 4001 == 0:
                acc.sample({"expr": qast.show(["and", q1, q2]), "points": len(pts)}, cap=1)
        for q1, t1, s1 in d2[spec["part"] :: spec["of"]]:
            q = ["not", q1]
            t = (~t1[0], (t1,))
            for p, P in pts:
                check_tree(t, q, p, P)
                acc.ev()
        acc.cls("depth3_exprs", k)
        acc.extra = {"depth3_total_exprs": 2 * len(d2) ** 2 + len(d2), "depth3_step": step, "depth3_complete": step == 1}
        return

    if spec["kind"] == "fuzz":
        stats, v = core.run_fuzz("c09", ctx, spec["runs"], max_len=64)
        if stats is None:
            acc.cls("atheris_unavailable")
            return
        acc.ev(stats.get("execs", 0))
        acc.cls("atheris_execs", stats.get("execs", 0))
        acc.nontrivial_enum += stats.get("distinct_nontrivial", 0)
        if v is not None:
            raise v
        return

    # generated
    strat = st.tuples(gen.queries(5), gen.points())

    def check(case):
        q, p = case
        check_qp(q, p)
        acc.ev()
        acc.cls("gen_depth%d" % min(qast.depth(q), 6))
        for f in qast.features(q):
            acc.cls("gen:" + f)
        hard = False
        for leaf in qast.leaves(q):
            attr, path = leaf[1], leaf[2]
            if attr in ("tag", "field") and path and path[0][0] == "key":
                d = p["tags"] if attr == "tag" else p["fields"]
                v = d.get(path[0][1], universe.MISSING)
                if v == universe.MISSING or v is None or v == "" or v == 0 or (leaf[3][0] == "cmp" and v == leaf[3][2]):
                    hard = True
        if hard:
            acc.nt([q, p])
            acc.sample({"expr": qast.show(q), "point": p, "truth": qast.ref(q, p)}, cap=2)

    v = core.hyp_search(check, strat, ctx.seed, spec["n"])
    if v is not None:
        raise v


def replay(sub, case, ctx):
    if case.get("p") is None:
        tree(case["q"])
        return
    check_qp(case["q"], case["p"])


def finish(merged, tier):
    d3 = [e for e in merged["extra"] if "depth3_complete" in e]
    return {
        "exhaustive": True,
        "exhaustive_part": "leaves x U and depth-2 expressions x slot-varying points are complete; depth-3 over the 12-leaf core is %s" % ("complete" if d3 and all(e["depth3_complete"] for e in d3) and len(d3) == 16 else "sampled (every 23rd pair of 2 of 16 parts)"),
        "vocabulary": next((e["vocabulary"] for e in merged["extra"] if "vocabulary" in e), None),
    }
