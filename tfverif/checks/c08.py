"""C08 — timestamps are stored as exact UTC instants and ordered correctly.

One group of shards per process time zone (TZ set with time.tzset() inside the worker before anything is generated):
UTC, America/Los_Angeles, Australia/Lord_Howe, Asia/Kathmandu.  Inputs: aware datetimes 1700-2240 at microsecond resolution in arbitrary
fixed offsets (down to seconds) and IANA zones, naive datetimes concentrated around the DST gaps and folds of the process zone (both fold
values), adjacent-microsecond pairs and exact ties.  Operations: insert, insert_multiple, late inserts after the first reads (between / before / after the stored instants), insert without time, update(time=static aware
non-UTC | static naive | callable), reopen; {CSV, memory} x {auto_index on, off}.
Oracle: the stored/returned time is the expected instant (aware: the same instant; naive: local time of the process zone computed
independently with zoneinfo), carries UTC tzinfo, keeps its microseconds; get_timestamps() returns the same list on the index path and the
scan path; all six TimeQuery operators with right-hand sides in arbitrary zones (incl. stored time +-1 microsecond) select exactly the
instants that compare so; sorted results are stably time-ordered; a point without time gets t_before <= time <= t_after.
"""
import os
import shutil
import time as _time
from datetime import datetime, timedelta, timezone
from zoneinfo import ZoneInfo

from hypothesis import strategies as st

from .. import core, lockstep, qast
from ..core import Violation

ID = "C08"
LEVEL = "exploration"
RULE = (
    "per process zone in {UTC, America/Los_Angeles, Australia/Lord_Howe, Asia/Kathmandu}: Hypothesis-generated cases of 2-6 points whose times are aware (any fixed offset to the second, 5 IANA zones) "
    "or naive (70% within +-2h of a DST transition of the process zone, wall times inside gaps and folds with both fold values), years 1700-2240, microsecond resolution, with forced ties and "
    "adjacent-microsecond neighbours; then 0-2 time updates (static aware/naive, callable shift / zone change / naive-local), optional reopen; after each stage contents, get_timestamps and 6 operators x "
    "generated right-hand sides are compared with instants computed independently (zoneinfo), on 4 configurations. Non-trivial = case with a non-UTC input or right-hand side and at least one pair of "
    "points <= 1 microsecond apart; distinct by digest of the case."
)
ASSUMPTIONS = [
    "a naive datetime means local time of the process zone (docs/time.rst); expected instants use zoneinfo with PEP 495 fold semantics; cases where Python's own naive astimezone() disagrees with zoneinfo are discarded and counted (none observed)",
    "the system tz database and the tzdata used by zoneinfo are the same files",
]

UTC = timezone.utc
ZONES = ["UTC", "America/Los_Angeles", "Australia/Lord_Howe", "Asia/Kathmandu"]
IANA = ["America/Los_Angeles", "Australia/Lord_Howe", "Asia/Kathmandu", "Europe/London", "UTC", "Pacific/Apia"]
LO, HI = datetime(1700, 1, 2), datetime(2239, 12, 30)
_TRANS = {}


def set_tz(tz):
    os.environ["TZ"] = tz
    _time.tzset()


def transitions(tz):
    """UTC instants (naive) at which the zone's offset changes, for a spread of years."""
    if tz not in _TRANS:
        z = ZoneInfo(tz)
        out = []
        for year in (1919, 1945, 1968, 1985, 1986, 1999, 2011, 2015, 2016, 2024, 2037, 2100):
            t = datetime(year, 1, 1, tzinfo=UTC)
            end = datetime(year + 1, 1, 1, tzinfo=UTC)
            prev = t.astimezone(z).utcoffset()
            while t < end:
                n = t + timedelta(hours=6)
                off = n.astimezone(z).utcoffset()
                if off != prev:
                    lo, hi = t, n
                    while hi - lo > timedelta(seconds=1):
                        mid = lo + (hi - lo) / 2
                        mid = mid.replace(microsecond=0)
                        if mid.astimezone(z).utcoffset() == prev:
                            lo = mid
                        else:
                            hi = mid
                    out.append(hi.replace(tzinfo=None))
                    prev = off
                t = n
        _TRANS[tz] = out
    return _TRANS[tz]


# ---- time specs: JSON-able descriptions of an input datetime ------------------------------------------------
def build(ts):
    d = datetime.fromisoformat(ts["iso"])
    if ts.get("zone"):
        return d.replace(tzinfo=ZoneInfo(ts["zone"]), fold=ts.get("fold", 0))
    if ts.get("offset_s") is not None:
        return d.replace(tzinfo=timezone(timedelta(seconds=ts["offset_s"], microseconds=ts.get("offset_us", 0))))
    return d.replace(fold=ts.get("fold", 0))


def expected_utc(ts, tz):
    """The instant the input denotes, computed without Python's naive-local machinery."""
    d = build(ts)
    if d.tzinfo is None:
        d = d.replace(tzinfo=ZoneInfo(tz))
    return d.astimezone(UTC)


def in_range(ts, tz):
    try:
        e = expected_utc(ts, tz)
    except (OverflowError, ValueError):
        return False
    return LO.replace(tzinfo=UTC) <= e <= HI.replace(tzinfo=UTC)


@st.composite
def tspecs(draw, tz, aware_only=False):
    kind = draw(st.sampled_from(["offset", "offset", "iana", "naive", "naive", "naive"] if not aware_only else ["offset", "offset", "iana", "utc"]))
    if kind == "naive":
        tr = transitions(tz)
        if tr and draw(st.integers(0, 9)) < 7:
            base = draw(st.sampled_from(tr))
            z = ZoneInfo(tz)
            before = (base.replace(tzinfo=UTC) - timedelta(seconds=1)).astimezone(z).replace(tzinfo=None)
            wall = before + timedelta(seconds=draw(st.integers(-7200, 7200)), microseconds=draw(st.sampled_from([0, 0, 1, 999999, 500000])))
        else:
            wall = draw(st.datetimes(min_value=LO, max_value=HI))
        return {"iso": wall.isoformat(), "fold": draw(st.integers(0, 1))}
    # instants where float timestamps change precision (|t| around 2**31, 2**32 seconds from the epoch) get extra weight
    spans = st.one_of(st.datetimes(min_value=datetime(2106, 2, 1), max_value=datetime(2112, 9, 30)), st.datetimes(min_value=datetime(1827, 4, 1), max_value=datetime(1833, 12, 1)),
                      st.datetimes(min_value=datetime(2038, 1, 18), max_value=datetime(2038, 1, 21)), st.datetimes(min_value=datetime(1901, 12, 12), max_value=datetime(1901, 12, 15)))
    d = draw(st.one_of(st.datetimes(min_value=LO, max_value=HI), st.datetimes(min_value=LO, max_value=HI), spans, st.sampled_from([datetime(1970, 1, 1), datetime(1969, 12, 31, 23, 59, 59, 999999), datetime(2038, 1, 19, 3, 14, 7, 999999), datetime(1700, 6, 1), datetime(2239, 6, 1, 1, 2, 3, 4)])))
    if kind == "utc":
        return {"iso": d.isoformat(), "offset_s": 0}
    if kind == "offset":
        spec = {"iso": d.isoformat(), "offset_s": draw(st.one_of(st.integers(-86399, 86399), st.sampled_from([0, 3600, -28800, 20700, 37800, 1, -1, 86399])))}
        if draw(st.integers(0, 5)) == 0:
            # offsets need not be whole seconds
            spec["offset_s"] = draw(st.sampled_from([0, 0, 0, 1, -1, 3600]))
            spec["offset_us"] = draw(st.sampled_from([250000, 500000, 999999, 1, -250000, -1]))
        return spec
    zone = draw(st.sampled_from(IANA))
    tr = transitions(zone)
    if tr and draw(st.integers(0, 2)) == 0:
        # a wall time of that zone close to one of its transitions (inside the fold or the gap when the offset moves)
        base = draw(st.sampled_from(tr))
        z = ZoneInfo(zone)
        before = (base.replace(tzinfo=UTC) - timedelta(seconds=1)).astimezone(z).replace(tzinfo=None)
        d = before + timedelta(seconds=draw(st.integers(-5400, 5400)), microseconds=draw(st.sampled_from([0, 0, 1, 999999])))
    return {"iso": d.isoformat(), "zone": zone, "fold": draw(st.integers(0, 1))}


def as_offset_spec(instant, offset_s):
    """The given UTC instant expressed in a fixed offset (for neighbours / right-hand sides)."""
    local = instant.astimezone(timezone(timedelta(seconds=offset_s)))
    return {"iso": local.replace(tzinfo=None).isoformat(), "offset_s": offset_s}


@st.composite
def cases(draw, tz):
    n = draw(st.integers(2, 6))
    specs = []
    for i in range(n):
        mode = draw(st.integers(0, 5))
        if specs and mode == 0:  # exact tie (same instant, another zone)
            e = expected_utc(draw(st.sampled_from(specs)), tz)
            specs.append(as_offset_spec(e, draw(st.sampled_from([0, 20700, -28800, 37800]))))
        elif specs and mode == 1:  # adjacent microsecond
            e = expected_utc(draw(st.sampled_from(specs)), tz) + timedelta(microseconds=draw(st.sampled_from([-1, 1])))
            specs.append(as_offset_spec(e, draw(st.sampled_from([0, 20700, -28800, 3600]))))
        else:
            specs.append(draw(tspecs(tz)))
    specs = [s for s in specs if in_range(s, tz)]
    if len(specs) < 2:
        specs = [{"iso": "2020-01-01T00:00:00", "offset_s": 0}, {"iso": "2020-01-01T00:00:00.000001", "offset_s": 3600}]
    how = draw(st.sampled_from(["single", "multiple", "mixed"]))
    rhs = []
    for _ in range(draw(st.integers(3, 6))):
        if draw(st.booleans()):
            e = expected_utc(draw(st.sampled_from(specs)), tz) + timedelta(microseconds=draw(st.sampled_from([-1, 0, 0, 1])))
            rhs.append(as_offset_spec(e, draw(st.sampled_from([0, 20700, -28800, 37800, 86399, -1]))))
        else:
            r = draw(tspecs(tz, aware_only=True))
            if in_range(r, tz):
                rhs.append(r)
    updates = []
    for _ in range(draw(st.integers(0, 2))):
        k = draw(st.sampled_from(["static", "static", "shift", "zone", "naive_local"]))
        if k == "static":
            t = draw(tspecs(tz))
            if in_range(t, tz):
                updates.append(["static", draw(st.integers(0, 5)), t])
        elif k == "shift":
            updates.append(["shift", draw(st.sampled_from([1, -1, 3600 * 10**6, -86400 * 10**6, 1800 * 10**6 + 1]))])
        elif k == "zone":
            updates.append(["zone", draw(st.sampled_from(IANA))])
        else:
            updates.append(["naive_local"])
    # points inserted after the first round of reads (the index has been rebuilt by then): between, before and after the stored instants
    late = []
    for _ in range(draw(st.integers(0, 2))):
        if draw(st.booleans()):
            es = sorted(expected_utc(x, tz) for x in specs)
            a = draw(st.sampled_from(es))
            b = draw(st.sampled_from(es))
            mid = min(a, b) + (max(a, b) - min(a, b)) / 2
            mid = mid.replace(microsecond=mid.microsecond)
            late.append(as_offset_spec(mid, draw(st.sampled_from([0, 3600, -28800, 20700]))))
        else:
            t = draw(tspecs(tz))
            if in_range(t, tz):
                late.append(t)
    return {"tz": tz, "specs": specs, "how": how, "rhs": rhs, "updates": updates, "reopen": draw(st.booleans()), "late": late}


def fail(sub, case, msg):
    raise Violation(sub, case, msg)


def check_state(case, real, exp, stage, acc, extra_rhs=()):
    """exp: list of expected UTC instants in insertion order (point i carries tag i=str(i))."""
    from tinyflux import TagQuery, TimeQuery

    db = real.db
    where = "[%s %s TZ=%s]" % (real.name, stage, case["tz"])
    try:
        pts = db.all(sorted=False)
    except Exception as e:
        fail("read-raised", case, "%s all() raised %r" % (where, e))
    if len(pts) != len(exp):
        fail("contents", case, "%s %d points stored, expected %d" % (where, len(pts), len(exp)))
    for i, (p, e) in enumerate(zip(pts, exp)):
        t = p.time
        if t.tzinfo is None or t.utcoffset() != timedelta(0):
            fail("not-utc", case, "%s point %d is returned with time %r (tzinfo is not UTC)" % (where, i, t))
        if t != e or t.microsecond != e.microsecond:
            fail("instant", case, "%s point %d: stored instant %s, expected %s (input %r)" % (where, i, t.isoformat(), e.isoformat(), case["specs"][i] if stage == "after-insert" and i < len(case["specs"]) else "updated/late"))
        if p.tags.get("i") != str(i):
            fail("contents", case, "%s storage order changed" % where)
    acc.ev(len(pts))
    for label in ("first", "second"):  # the second call is certainly index-served when auto_index is on
        try:
            ts = db.get_timestamps()
        except Exception as e:
            fail("read-raised", case, "%s get_timestamps() raised %r" % (where, e))
        if ts != exp or any(x.utcoffset() != timedelta(0) for x in ts):
            fail("get_timestamps", case, "%s get_timestamps() = %s, expected %s (index valid: %s)" % (where, [x.isoformat() for x in ts], [x.isoformat() for x in exp], db.index.valid))
    acc.ev(2)
    order = sorted(range(len(exp)), key=lambda i: exp[i])  # stable
    try:
        srt = [int(p.tags["i"]) for p in db.all()]
    except Exception as e:
        fail("read-raised", case, "%s all(sorted) raised %r" % (where, e))
    if srt != order:
        fail("sorted-order", case, "%s all() order %s, expected stable time order %s" % (where, srt, order))
    ops = {"==": lambda a, b: a == b, "!=": lambda a, b: a != b, "<": lambda a, b: a < b, "<=": lambda a, b: a <= b, ">": lambda a, b: a > b, ">=": lambda a, b: a >= b}
    T = TimeQuery()
    # test() and map() on time are answered from the index by rebuilding datetimes from its float timestamps: every stored instant must
    # come back exactly (microsecond for microsecond)
    for e in sorted(set(exp))[:6]:
        want = [i for i in range(len(exp)) if exp[i] == e]
        for label, q in (("test(== %s)" % e.isoformat(), T.test(lambda t, _e=e: t == _e)), ("map(ident) == %s" % e.isoformat(), T.map(lambda t: t) == e), ("map(-1us) == ", T.map(lambda t: t - timedelta(microseconds=1)) == e - timedelta(microseconds=1))):
            try:
                got = [int(p.tags["i"]) for p in db.search(q, sorted=False)]
            except Exception as ex:
                fail("read-raised", case, "%s Time.%s raised %r" % (where, label, ex))
            if got != want:
                fail("time-query", case, "%s Time.%s selects %s, instants say %s; stored %s" % (where, label, got, want, [x.isoformat() for x in exp]))
            acc.ev()
    for r in list(case["rhs"]) + list(extra_rhs):
        rv = build(r) if isinstance(r, dict) else r
        # instants are compared in UTC: Python's own == between zones is special-cased (never equal) for times inside a DST fold
        rv_utc = rv.astimezone(UTC)
        for name, f in ops.items():
            want = [i for i in range(len(exp)) if f(exp[i], rv_utc)]
            q = {"==": T == rv, "!=": T != rv, "<": T < rv, "<=": T <= rv, ">": T > rv, ">=": T >= rv}[name]
            try:
                got = [int(p.tags["i"]) for p in db.search(q, sorted=False)]
                cnt = db.count(q)
                gs = [int(p.tags["i"]) for p in db.search(q)]
            except Exception as e:
                fail("read-raised", case, "%s Time %s %s raised %r" % (where, name, rv.isoformat(), e))
            if got != want or cnt != len(want):
                fail("time-query", case, "%s Time %s %s selects %s (count %s), instants say %s; stored %s" % (where, name, rv.isoformat(), got, cnt, want, [x.isoformat() for x in exp]))
            if gs != [i for i in order if i in set(want)]:
                fail("sorted-order", case, "%s search(Time %s %s) order %s is not the stable time order" % (where, name, rv.isoformat(), gs))
            acc.ev(3)


def run_case(case, ctx, acc):
    from tinyflux import Point, TagQuery

    tz = case["tz"]
    set_tz(tz)
    specs = case["specs"]
    exp0 = [expected_utc(s, tz) for s in specs]
    # oracle self-check: Python's documented naive->local conversion must agree with zoneinfo on this platform
    for s, e in zip(specs, exp0):
        d = build(s)
        if d.tzinfo is None and d.astimezone(UTC) != e:
            acc.cls("oracle_selfcheck_discards")
            return False
    d = ctx.fresh_dir()
    try:
        for kind, auto in lockstep.CONFIGS:
            real = lockstep.Real(kind, auto, d)
            try:
                db = real.db
                mk = lambda i: Point(time=build(specs[i]), measurement="m", tags={"i": str(i)}, fields={"v": i})  # noqa: E731
                try:
                    if case["how"] == "single":
                        for i in range(len(specs)):
                            db.insert(mk(i))
                    elif case["how"] == "multiple":
                        db.insert_multiple([mk(i) for i in range(len(specs))])
                    else:
                        db.insert(mk(0))
                        db.insert_multiple(mk(i) for i in range(1, len(specs)))
                except Exception as e:
                    fail("insert-raised", case, "[%s TZ=%s] insert raised %r" % (real.name, tz, e))
                exp = list(exp0)
                check_state(case, real, exp, "after-insert", acc)
                for j, ts in enumerate(case.get("late", [])):
                    try:
                        db.insert(Point(time=build(ts), measurement="m", tags={"i": str(len(exp))}, fields={"v": len(exp)}))
                    except Exception as e:
                        fail("insert-raised", case, "[%s TZ=%s] late insert raised %r" % (real.name, tz, e))
                    exp.append(expected_utc(ts, tz))
                    check_state(case, real, exp, "after-late-insert-%d" % j, acc)
                for u in case["updates"]:
                    try:
                        if u[0] == "static":
                            idx = u[1] % len(exp)
                            n = db.update(TagQuery().i == str(idx), time=build(u[2]))
                            new = expected_utc(u[2], tz)
                            if n != (1 if new != exp[idx] else 0):
                                fail("update-count", case, "[%s] update(time=%r) returned %r" % (real.name, u[2], n))
                            exp[idx] = new
                        elif u[0] == "shift":
                            delta = timedelta(microseconds=u[1])
                            if not all(LO.replace(tzinfo=UTC) <= x + delta <= HI.replace(tzinfo=UTC) for x in exp):
                                continue
                            db.update_all(time=lambda t, _d=delta: t + _d)
                            exp = [x + delta for x in exp]
                        elif u[0] == "zone":
                            z = ZoneInfo(u[1])
                            n = db.update_all(time=lambda t, _z=z: t.astimezone(_z))
                            if n != 0:
                                fail("update-count", case, "[%s] re-expressing every time in zone %s changed %r points (same instants)" % (real.name, u[1], n))
                        else:
                            z = ZoneInfo(tz)
                            db.update_all(time=lambda t, _z=z: t.astimezone(_z).replace(tzinfo=None, fold=0))
                            exp = [x.astimezone(z).replace(tzinfo=None, fold=0).replace(tzinfo=z).astimezone(UTC) for x in exp]
                    except Violation:
                        raise
                    except Exception as e:
                        fail("update-raised", case, "[%s TZ=%s] update %r raised %r" % (real.name, tz, u, e))
                    check_state(case, real, exp, "after-update-%s" % u[0], acc)
                if case["reopen"] and kind == "csv":
                    db.close()
                    real.open()
                    check_state(case, real, exp, "after-reopen", acc)
                # a point without a time receives the insertion time
                before = datetime.now(UTC)
                bare = Point()  # (Point(tags=...) would take the time of its construction; a bare Point has none)
                bare.tags = {"i": str(len(exp))}
                real.db.insert(bare)
                after = datetime.now(UTC)
                t = real.db.all(sorted=False)[-1].time
                if not (before <= t <= after) or t.utcoffset() != timedelta(0):
                    fail("stamp", case, "[%s] point without time was stamped %r, inserted between %r and %r" % (real.name, t, before, after))
                acc.ev()
                # "now" is not necessarily the latest instant (forecast data): order, get_timestamps and time queries once more
                check_state(case, real, exp + [t], "after-stamped-insert", acc, extra_rhs=[t, t + timedelta(days=1), t - timedelta(microseconds=1)])
                if any(x > t for x in exp):
                    acc.cls("stamped_insert_before_future_points")
            finally:
                real.close()
    finally:
        shutil.rmtree(d, ignore_errors=True)
    return True


def nontrivial(case):
    tz = case["tz"]
    es = sorted(expected_utc(s, tz) for s in case["specs"])
    close = any((b - a) <= timedelta(microseconds=1) for a, b in zip(es, es[1:]))
    nonutc = any(s.get("offset_s") not in (0,) for s in case["specs"] + case["rhs"])
    return close and nonutc


def classify(case, acc):
    tz = case["tz"]
    z = ZoneInfo(tz)
    for s in case["specs"]:
        d = build(s)
        if d.tzinfo is None:
            acc.cls("input_naive")
            a = d.replace(tzinfo=z, fold=0).utcoffset()
            b = d.replace(tzinfo=z, fold=1).utcoffset()
            if a != b:
                # gap: the wall time does not exist (converting back gives another wall time); fold: it exists twice
                back = d.replace(tzinfo=z, fold=0).astimezone(UTC).astimezone(z).replace(tzinfo=None)
                acc.cls("input_naive_in_gap" if back != d.replace(fold=0) else "input_naive_in_fold")
        elif s.get("zone"):
            acc.cls("input_iana")
            zz = ZoneInfo(s["zone"])
            if d.replace(fold=0).utcoffset() != d.replace(fold=1).utcoffset():
                acc.cls("input_iana_in_fold_or_gap")
        else:
            acc.cls("input_fixed_offset" if s.get("offset_s") else "input_utc")
        y = expected_utc(s, tz).year
        acc.cls("year<1970" if y < 1970 else "year>2100" if y > 2100 else "year_1970_2100")
    for r in case["rhs"]:
        rv = build(r)
        if r.get("zone") and rv.replace(fold=0).utcoffset() != rv.replace(fold=1).utcoffset():
            acc.cls("rhs_iana_in_fold_or_gap")
    for u in case["updates"]:
        acc.cls("update_" + u[0] + ("_naive" if u[0] == "static" and not u[2].get("zone") and u[2].get("offset_s") is None else ""))


def shards(tier):
    out = []
    for tz in ZONES:
        for k in range(4):
            out.append({"tz": tz, "n": 350 if tier == "quick" else 6000})
    return out


def run_shard(spec, ctx):
    acc = ctx.acc
    tz = spec["tz"]
    set_tz(tz)
    transitions(tz)

    def check(case):
        if run_case(case, ctx, acc):
            acc.cls("cases_" + tz)
            classify(case, acc)
            if nontrivial(case):
                acc.nt(case)
                acc.sample({"tz": tz, "inputs": case["specs"][:4], "rhs": case["rhs"][:2], "updates": case["updates"]}, cap=1, every=17)

    v = core.hyp_search(check, cases(tz), ctx.seed, spec["n"])
    if v is not None:
        raise v


def replay(sub, case, ctx):
    run_case(case, ctx, ctx.acc)


def finish(merged, tier):
    return {"process_zones": ZONES}
