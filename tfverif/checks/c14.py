"""C14 — no API path lets an invalid value into the database.

Exhaustive battery: entry points {Point(...), the four attribute setters, insert / insert_multiple of non-Points, update / update_all with
static arguments, update / update_all with callables returning the value; the database and Measurement-handle routes} x slots {time, measurement,
tag key, tag value, field key, field value, whole tags, whole fields} x wrongly-typed values x {CSV, memory} x {auto_index on, off}.
Oracle: the call raises ValueError or TypeError; afterwards the stored contents equal the contents before the call and every stored /
returned point passes an independent type predicate.  Hypothesis adds recursively generated junk values judged by an independent validity predicate.
"""
import copy
import datetime as dt
import shutil
from collections.abc import Mapping

from hypothesis import strategies as st

from .. import core, gen, lockstep, model, qast
from ..core import Violation

ID = "C14"
LEVEL = "exploration"
RULE = (
    "exhaustive over a finite battery: every (entry point, route, slot, wrong value, storage, auto_index) combination - Point construction, attribute assignment, insert/insert_multiple of non-Points, "
    "update/update_all static and via callable, through the database and through Measurement handles; wrong values = int, float, bool, bytes, None where not allowed, list, dict, set, tuple, numeric str, "
    "str where a number is expected, object(), each also embedded in an otherwise well-formed mapping. Plus Hypothesis-generated recursive junk classified by an independent validity predicate. "
    "Non-trivial = the wrong value sits inside a well-formed container (a mapping with one wrongly typed key or value next to valid entries) or comes out of a callable; battery cases are distinct by construction, generated ones by digest."
)
ASSUMPTIONS = [
    "mutating p.tags[...] / p.fields[...] of an existing Point in place bypasses every setter by Python semantics and is not an API path of tinyflux",
    "in update()/update_all() a falsy argument (None, 0, '', [], {}) means 'not given'; alone it must raise, next to valid arguments it must merely not be stored",
]

UTC = dt.timezone.utc
T0 = gen.T0


class Obj:
    def __repr__(self):
        return "<object>"


OBJ = Obj()
WRONG = {
    "time": [5, 1.5, True, b"2020", None, [T0], {"t": T0}, "2020-01-01T00:00:00", OBJ, (2020, 1, 1), dt.date(2020, 1, 1)],
    "measurement": [5, 1.5, True, b"m", None, ["m"], {"m": 1}, OBJ, ("m",)],
    "tag_key": [5, 1.5, True, b"k", None, ("k",), OBJ],
    "tag_value": [5, 1.5, True, False, 0, b"v", ["v"], {"v": 1}, OBJ, ("v",), {"v"}],
    "field_key": [5, 1.5, True, b"k", None, ("k",), OBJ],
    "field_value": ["1", "abc", "", True, False, b"1", [1], {"a": 1}, OBJ, (1,), {1}, 1j],
    "tags": [5, 1.5, True, "str", b"b", None, ["a"], [("a", "x")], OBJ, {"a"}],
    "fields": [5, 1.5, True, "str", b"b", None, ["a"], [("a", 1)], OBJ, {"a"}],
}


def is_valid_point_dict(p):
    """Independent type predicate for what the database may hold / return."""
    t = p["time"]
    if not isinstance(t, dt.datetime) or t.tzinfo is None:
        return "time %r" % (t,)
    if not isinstance(p["measurement"], str):
        return "measurement %r" % (p["measurement"],)
    if not isinstance(p["tags"], Mapping) or not isinstance(p["fields"], Mapping):
        return "tags/fields container"
    for k, v in p["tags"].items():
        if not isinstance(k, str) or not (v is None or isinstance(v, str)):
            return "tag %r: %r" % (k, v)
    for k, v in p["fields"].items():
        if not isinstance(k, str) or not (v is None or (isinstance(v, (int, float)) and not isinstance(v, bool))):
            return "field %r: %r" % (k, v)
    return None


def valid_for(slot, v):
    if slot == "time":
        return isinstance(v, dt.datetime)
    if slot == "measurement":
        return isinstance(v, str)
    if slot == "tags":
        return isinstance(v, Mapping) and all(isinstance(k, str) and (x is None or isinstance(x, str)) for k, x in v.items())
    if slot == "fields":
        return isinstance(v, Mapping) and all(isinstance(k, str) and (x is None or (isinstance(x, (int, float)) and not isinstance(x, bool))) for k, x in v.items())
    raise KeyError(slot)


def embed(slot, w):
    """(argument name, value) carrying wrong value w in the given slot, inside an otherwise well-formed container."""
    if slot in ("time", "measurement", "tags", "fields"):
        return slot, w
    if slot == "tag_key":
        return "tags", {"ok": "x", w: "v"}
    if slot == "tag_value":
        return "tags", {"ok": "x", "bad": w, "n": None}
    if slot == "field_key":
        return "fields", {"ok": 1, w: 2}
    if slot == "field_value":
        return "fields", {"ok": 1.5, "bad": w, "n": None}


BASE_POINTS = [
    model.mk(T0, "m1", {"ok": "x", "a": None}, {"ok": 1, "f": 2.5}),
    model.mk(T0 + dt.timedelta(days=1), "m2", {}, {}),
    model.mk(T0 + dt.timedelta(days=2), "m1", {"a": "y"}, {"f": None}),
]
ROUTES = ["db.update", "db.update_m", "db.update_all", "h.update", "h.update_all"]


# wrong values that compare equal (==, same hash) to a valid value of the slot: a cache keyed on equality could let them through
EQUAL_TWINS = {True: 1, False: 0}


def battery():
    """Deterministic list of cases (dicts)."""
    cases = []
    for wi, w in enumerate(WRONG["field_value"]):
        if isinstance(w, bool):
            cases.append({"entry": "ctor", "slot": "field_value", "wi": wi, "primed": True})
            cases.append({"entry": "setter", "slot": "field_value", "wi": wi, "primed": True})
            for cfg in range(4):
                for route in ROUTES:
                    cases.append({"entry": "update_static", "slot": "field_value", "wi": wi, "cfg": cfg, "route": route, "primed": True})
                    cases.append({"entry": "update_callable", "slot": "field_value", "wi": wi, "cfg": cfg, "route": route, "primed": True})
    for slot, ws in WRONG.items():
        for wi in range(len(ws)):
            cases.append({"entry": "ctor", "slot": slot, "wi": wi})
            cases.append({"entry": "setter", "slot": slot, "wi": wi})
            for cfg in range(4):
                for route in ROUTES:
                    cases.append({"entry": "update_static", "slot": slot, "wi": wi, "cfg": cfg, "route": route})
                    cases.append({"entry": "update_callable", "slot": slot, "wi": wi, "cfg": cfg, "route": route})
                    if route in ("db.update", "h.update_all") and wi % 2 == 0:
                        # the callable is well-behaved on the first matched point and returns the wrong value only later
                        cases.append({"entry": "update_callable", "slot": slot, "wi": wi, "cfg": cfg, "route": route, "late": True})
                        # a wrong static value next to a (valid) callable in another slot
                        cases.append({"entry": "update_static", "slot": slot, "wi": wi, "cfg": cfg, "route": route, "mixed": True})
                    if route in ("db.update", "h.update") and slot in ("tag_key", "tag_value", "field_key", "field_value"):
                        # the callable writes the wrong entry into the mapping it was handed and returns that same object
                        cases.append({"entry": "update_callable", "slot": slot, "wi": wi, "cfg": cfg, "route": route, "inplace": True})
    for wi in range(8):
        for cfg in range(4):
            for route in ("db.insert", "db.insert_multiple", "db.insert_multiple_mid", "h.insert", "h.insert_multiple_mid"):
                cases.append({"entry": "insert_nonpoint", "wi": wi, "cfg": cfg, "route": route})
    return cases


NONPOINTS = [None, 5, "point", {"time": T0, "measurement": "m"}, [1], (T0, "m", {}, {}), OBJ, b"p"]


def expect_raise(case, fn, required=True):
    try:
        r = fn()
    except (ValueError, TypeError) as e:
        return e
    except Exception as e:
        raise Violation("wrong-exception", case, "%r raised %s(%s); ValueError/TypeError expected" % (case, type(e).__name__, str(e)[:200]))
    if required:
        raise Violation("accepted", case, "%r was accepted (returned %r) instead of raising ValueError/TypeError" % (case, r))
    return None


def open_db(cfg, d):
    from tinyflux import TinyFlux
    from tinyflux.storages import MemoryStorage

    kind, auto = lockstep.CONFIGS[cfg]
    import os

    if kind == "csv":
        return TinyFlux(os.path.join(d, "db%d.csv" % cfg), auto_index=auto), kind, auto
    return TinyFlux(storage=MemoryStorage, auto_index=auto), kind, auto


def check_contents(case, db, expected, note=""):
    for reader, name in ((lambda: db.all(sorted=False), "all"), (lambda: db.search(qast.build(["leaf", "time", [], ["noop"]]), sorted=False), "search"), (lambda: list(iter(db)), "iter")):
        got = [model.from_point(p) for p in reader()]
        for p in got:
            bad = is_valid_point_dict(p)
            if bad:
                raise Violation("invalid-stored", case, "after %r the database returns a point with an invalid %s (%s)%s" % (case, bad, name, note))
        if got != expected:
            raise Violation("contents-changed", case, "after %r contents are %s, expected unchanged %s (%s)%s" % (case, lockstep.brief(got), lockstep.brief(expected), name, note))


def run_case(case, ctx, wrong_value=None):
    from tinyflux import Point

    acc = ctx.acc
    entry = case["entry"]
    if entry == "insert_nonpoint":
        w = NONPOINTS[case["wi"]]
    elif wrong_value is not None:
        w = wrong_value
    else:
        w = WRONG[case["slot"]][case["wi"]]
    show = dict(case, value=repr(w))
    acc.ev()
    twin = None
    if case.get("primed"):
        # the same call with the ==-equal valid value first (must be accepted), then the wrong value (must still be rejected)
        _, twin = embed(case["slot"], EQUAL_TWINS[w])
    if entry in ("ctor", "setter"):
        arg, val = embed(case["slot"], w)
        if twin is not None:
            Point(**{arg: copy.deepcopy(twin)})
            p0 = Point(time=T0, measurement="m", tags={"a": "x"}, fields={"a": 1})
            setattr(p0, arg, copy.deepcopy(twin))
        if entry == "ctor":
            expect_raise(show, lambda: Point(**{arg: copy.deepcopy(val) if not isinstance(w, Obj) else val}))
            # also next to otherwise valid arguments
            kw = {"time": T0, "measurement": "m", "tags": {"a": "x"}, "fields": {"a": 1}}
            kw[arg] = val
            expect_raise(show, lambda: Point(**kw))
        else:
            p = Point(time=T0, measurement="m", tags={"a": "x"}, fields={"a": 1})
            before = model.from_point(p)
            expect_raise(show, lambda: setattr(p, arg, val))
            if model.from_point(p) != before or is_valid_point_dict(model.from_point(p)):
                raise Violation("setter-changed", show, "failed assignment %r changed the point to %r" % (show, model.from_point(p)))
        return
    d = ctx.fresh_dir()
    try:
        db, kind, auto = open_db(case["cfg"], d)
        try:
            db.insert_multiple([gen.to_point(p) for p in BASE_POINTS])
            expected = [copy.deepcopy(p) for p in BASE_POINTS]
            if case["cfg"] % 2 == 0 and not auto:
                db.reindex()
            h = db.measurement("m1")
            if entry == "insert_nonpoint":
                r = case["route"]
                good = gen.to_point(model.mk(T0 + dt.timedelta(days=3), "m1", {"a": "z"}, {}))
                if r == "db.insert":
                    expect_raise(show, lambda: db.insert(w))
                elif r == "h.insert":
                    expect_raise(show, lambda: h.insert(w))
                elif r == "db.insert_multiple":
                    expect_raise(show, lambda: db.insert_multiple([w]))
                else:
                    tgt = db if r.startswith("db") else h
                    expect_raise(show, lambda: tgt.insert_multiple([good, w, good]))
                    expected = expected + [model.mk(T0 + dt.timedelta(days=3), "m1", {"a": "z"}, {})]
                check_contents(show, db, expected)
                return
            arg, val = embed(case["slot"], w)
            route = case["route"]
            q = qast.build(["leaf", "time", [], ["cmp", ">=", T0]])
            if entry == "update_static":
                kw = {arg: val}
                if case.get("mixed"):
                    other_cb = {"tags": ("time", lambda t: t + dt.timedelta(hours=1)), "fields": ("tags", lambda t: {"cb": "1"}), "time": ("tags", lambda t: {"cb": "1"}), "measurement": ("fields", lambda f: {"cb": 1})}[arg]
                    kw[other_cb[0]] = other_cb[1]
            elif case.get("late"):
                valid_first = {"time": T0 + dt.timedelta(days=9), "measurement": "late", "tags": {"late": "ok"}, "fields": {"late": 1}}[arg]
                calls = {"n": 0}

                def late_cb(old, _v=val, _ok=valid_first):
                    calls["n"] += 1
                    return _ok if calls["n"] == 1 else _v

                kw = {arg: late_cb}
            elif case.get("inplace") and isinstance(val, dict):
                def inplace_cb(old, _v=val):
                    old.update(_v)
                    return old

                kw = {arg: inplace_cb}
            else:
                kw = {arg: (lambda old, _v=val: _v)}
            falsy = entry == "update_static" and not val and not case.get("mixed")

            def call(extra=None):
                k = dict(kw)
                if extra:
                    k.update(extra)
                if route == "db.update":
                    return db.update(q, **k)
                if route == "db.update_m":
                    return db.update(q, _measurement="m1", **k)
                if route == "db.update_all":
                    return db.update_all(**k)
                if route == "h.update":
                    return h.update(q, **k)
                return h.update_all(**k)

            if twin is not None:
                saved = kw
                kw = {arg: copy.deepcopy(twin)} if entry == "update_static" else {arg: (lambda old, _v=twin: copy.deepcopy(_v))}
                try:
                    call()
                except Exception as e:
                    raise Violation("valid-rejected", show, "the valid twin %r of %r was rejected: %r" % (twin, show, e))
                expected = [model.from_point(p) for p in db.all(sorted=False)]
                kw = saved
            if case.get("late") or case.get("mixed"):
                if case.get("mixed") and not val:
                    return  # a falsy static value means "not given": nothing to reject
                expect_raise(show, call)
                if kind == "csv":
                    check_contents(show, db, expected)
                else:
                    # MemoryStorage keeps what was assigned before the failure (known finding KF-mem-update-partial); what must
                    # hold there is that nothing invalid is readable afterwards
                    for p_ in db.all(sorted=False):
                        bad_ = is_valid_point_dict(model.from_point(p_))
                        if bad_:
                            raise Violation("invalid-stored", show, "after %r the memory database returns a point with an invalid %s" % (show, bad_))
                return
            expect_raise(show, call)  # alone: always an error (a falsy value alone means "no arguments")
            check_contents(show, db, expected)
            # next to a valid other argument: a truthy wrong value must still raise; a falsy one means "not given"
            other = {"unset_tags": "zz"} if arg != "tags" else {"unset_fields": "zz"}
            e = expect_raise(show, lambda: call(other), required=not falsy)
            check_contents(show, db, expected, " [with a valid second argument]")
            # the database is still usable
            db.insert(gen.to_point(model.mk(T0 + dt.timedelta(days=5), "m1", {"a": "q"}, {"a": 3})))
            expected = expected + [model.mk(T0 + dt.timedelta(days=5), "m1", {"a": "q"}, {"a": 3})]
            check_contents(show, db, expected, " [after a further insert]")
        finally:
            db.close()
    finally:
        shutil.rmtree(d, ignore_errors=True)


def nontrivial(case):
    return case.get("primed") or case.get("late") or case.get("mixed") or case.get("inplace") or case["entry"] == "update_callable" or case.get("slot") in ("tag_key", "tag_value", "field_key", "field_value") or case.get("route", "").endswith("_mid")


def shards(tier):
    s = [{"kind": "battery", "part": k, "of": 12} for k in range(12)]
    s += [{"kind": "hyp", "n": 150 if tier == "quick" else 2500} for _ in range(4)]
    return s


def junk():
    leaves = st.one_of(st.integers(-5, 5), st.floats(allow_nan=False), st.booleans(), st.binary(max_size=3), st.text(max_size=3), st.none(), st.just(T0), st.dates())
    return st.recursive(leaves, lambda c: st.one_of(st.lists(c, max_size=3), st.dictionaries(st.one_of(st.text(max_size=2), st.integers(0, 2), st.none()), c, max_size=3), st.tuples(c, c)), max_leaves=6)


def run_shard(spec, ctx):
    acc = ctx.acc
    if spec["kind"] == "battery":
        cases = battery()
        for i, case in enumerate(cases):
            if i % spec["of"] != spec["part"]:
                continue
            run_case(case, ctx)
            acc.cls("entry:" + case["entry"])
            if nontrivial(case):
                acc.nontrivial_enum += 1
            if i % 211 == 0:
                w = NONPOINTS[case["wi"]] if case["entry"] == "insert_nonpoint" else WRONG[case["slot"]][case["wi"]]
                acc.sample(dict(case, value=repr(w)), cap=3)
        acc.extra = {"battery_total": len(cases)}
        return

    strat = st.tuples(st.sampled_from(["time", "measurement", "tags", "fields"]), junk(), st.sampled_from(["ctor", "setter", "update_static", "update_callable"]), st.integers(0, 3), st.sampled_from(ROUTES))

    def check(t):
        slot, v, entry, cfg, route = t
        if valid_for(slot, v):
            acc.cls("gen_valid_value_skipped")
            return
        case = {"entry": entry, "slot": slot, "wi": -1, "cfg": cfg, "route": route, "junk": repr(v)}
        try:
            run_case(case, ctx, wrong_value=v)
        except Violation as e:
            e.case = dict(case, value=v)
            raise
        acc.cls("gen_entry:" + entry)
        if isinstance(v, (dict, list, tuple)):
            acc.nt([slot, entry, cfg, route, repr(v)])
            acc.sample(case, cap=2)

    v = core.hyp_search(check, strat, ctx.seed, spec["n"])
    if v is not None:
        raise v


def replay(sub, case, ctx):
    case = dict(case)
    wv = case.pop("value", None)
    case.pop("junk", None)
    if case.get("wi", 0) == -1:
        if isinstance(wv, str) and wv.startswith("<object"):
            wv = OBJ
        run_case(case, ctx, wrong_value=tuple(wv) if isinstance(wv, list) and case.get("_tuple") else wv)
    else:
        run_case(case, ctx)


def finish(merged, tier):
    tot = next((e["battery_total"] for e in merged["extra"] if "battery_total" in e), None)
    return {"exhaustive": True, "exhaustive_part": "the complete battery of %s (entry point, route, slot, wrong value, storage, auto_index) combinations" % tot}
