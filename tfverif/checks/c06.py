"""C06 — a valid index is always equivalent to one rebuilt from storage.

After every step of every history, and for every configuration whose index is flagged valid, a fresh Index is built from what storage
holds and the live index must give identical answers for ~95 queries (all six time operators at every pool time and at +-1 microsecond,
tag/field/measurement leaves, compounds) and for every getter with every measurement argument, plus len/empty/latest_time.  Validity rules
with automatic indexing: an in-order insert into a valid index keeps it valid, and every read leaves it valid.
Exhaustive part: all sequences over a 14-operation alphabet up to depth 4 (quick) / 5 (thorough) on MemoryStorage and up to depth 3 / 4 on CSVStorage, auto_index on and off.
Generated part: long random histories on all four configurations (incl. operations that raise).
"""
import copy
import shutil

from .. import core, gen, histcheck, indexeq, lockstep, model
from ..core import Violation
from ..universe import K, L
from datetime import timedelta

ID = "C06"
LEVEL = "exploration"
RULE = (
    "exhaustive: every sequence of length <= 4 (quick) / <= 5 (thorough) over a 14-operation alphabet (4 fixed inserts: in-order, duplicate time, later, out-of-order; removes by time range, "
    "tag equality, negated field; an update; an update whose callable raises; insert_multiple with a non-Point in the middle; remove_all; drop_measurement; reindex; a read) on MemoryStorage with "
    "auto_index on and off, explored depth-first with state cloning; generated: Hypothesis histories up to 25/60 operations on CSV and memory. After every step every valid index is compared with "
    "a rebuild from storage on ~95 queries and all getters. Non-trivial = sequence/history containing a removal, reset or raising operation followed later by an insert and a comparison on a valid "
    "index; exhaustive sequences are distinct by construction, histories by operation list."
)
ASSUMPTIONS = ["equivalence is judged through Index.search / Index getters (the interface the database uses), on a fixed query vocabulary"]


def eq_hook(ls, op):
    for real in ls.reals:
        db = real.db
        if real.auto and op[0] in ("probe", "probe_hit", "probe_twin", "getters") and not db.index.valid:
            ls.fail("validity-after-read", real, "auto_index is on but the index is invalid after a read")
        if db.index.valid:
            # storage is observed passively (file decoded independently / plain iteration), so the comparison itself does not
            # move the file position or flush anything
            msg = indexeq.compare(db, [gen.to_point(p) for p in ls.call(real, "storage-observation", real.observe)])
            ls.ctx.acc.ev(indexeq.n_per_compare())
            ls.ctx.acc.cls("index_compared_" + real.name)
            if msg:
                ls.fail("index-drift", real, msg)
            if ls.flags & {"remove_partial", "reset", "raised", "remove_all_matched"}:
                ls.flags.add("compared_after_removal")
        else:
            ls.ctx.acc.cls("index_invalid_" + real.name)


def pre_validity(ls, op):
    """Remember index validity and the latest stored time before the operation runs."""
    ls._valid_before = [r.db.index.valid for r in ls.reals]
    ls._latest_before = max([p["time"] for p in ls.model.points], default=None)


def post_validity(ls, op):
    """Validity rules, evaluated before any later read can rebuild the index."""
    if op[0] != "insert":
        return
    t = op[1]["time"]
    if op[3] and ls._latest_before is not None and t < ls._latest_before:
        t = ls._latest_before  # the executor clamps "in-order" inserts
    for r, vb in zip(ls.reals, ls._valid_before):
        in_order = ls._latest_before is None or t >= ls._latest_before
        if r.auto and vb and in_order and not r.db.index.valid:
            ls.fail("validity-inorder-insert", r, "auto_index on: an insert in non-decreasing time order (%s >= latest %s) invalidated a valid index" % (t.isoformat(), ls._latest_before.isoformat() if ls._latest_before else None))
        if not vb and r.db.index.valid:
            # not a rule of the statement by itself: a valid index only has to equal a rebuild, which eq_hook compares right after
            ls.ctx.acc.cls("insert_turned_invalid_index_valid")
        ls.ctx.acc.cls("validity_rule_checked_" + ("inorder" if in_order else "out_of_order"))


def classify(ls, ops):
    seen_rm = False
    seen_ins = False
    for o in ops:
        if o[0] in ("remove", "remove_hit", "drop", "remove_all") or (o[0] == "insert_multiple" and o[5] is not None) or (o[0] in ("update", "update_hit") and any(isinstance(v, list) and v and v[0] in ("fn_raise", "fn_invalid") for v in (o[3] if o[0] == "update" else o[4]).values())):
            seen_rm = True
        elif seen_rm and o[0] in ("insert", "insert_multiple"):
            seen_ins = True
    return seen_rm and seen_ins and "compared_after_removal" in ls.flags


HOOKS = (eq_hook,)
PRE, POST = (pre_validity,), (post_validity,)
_gen_shard = histcheck.make_run_shard("index", classify, HOOKS, pre=PRE, post=POST)

T0 = gen.T0
P1 = model.mk(T0, "m1", {"a": "x"}, {"a": 1})
P2 = model.mk(T0, "m2", {"a": None}, {})
P3 = model.mk(T0 + timedelta(days=1), "m1", {"b": "x"}, {"f": 2})
P4 = model.mk(T0 - timedelta(days=1), "m1", {}, {"a": 0})
NOOP = L("tag", [K("a")], ["noop"])
ALPHABET = [
    ["insert", P1, 0, False, "db"],
    ["insert", P2, 1, False, "db"],
    ["insert", P3, 0, False, "db"],
    ["insert", P4, 2, False, "db"],
    ["remove", ["and", L("time", [], ["cmp", ">=", T0]), L("time", [], ["cmp", "<", T0 + timedelta(days=1)])], None, "db"],
    ["remove", L("tag", [K("a")], ["cmp", "==", "x"]), None, "db"],
    ["remove", ["not", L("field", [K("a")], ["cmp", "==", 1])], None, "db"],
    ["update", L("tag", [K("a")], ["exists"]), None, {"tags": {"a": "upd"}}, "db"],
    ["update", NOOP, None, {"tags": ["fn_raise", 1, "tags_const"]}, "db"],
    ["insert_multiple", [P3, P4], 0, "asis", "db", 1, "m1"],
    ["remove_all"],
    ["drop", "m1", "db"],
    ["reindex"],
    ["probe", L("time", [], ["cmp", "<=", T0]), None, "time", "db"],
]
MEM = [("mem", True), ("mem", False)]


def clone(ls):
    n = copy.copy(ls)
    n.model = ls.model.copy()
    n.log = list(ls.log)
    n.flags = set(ls.flags)
    n.reals = []
    for r in ls.reals:
        c = copy.copy(r)
        c.db = copy.deepcopy(r.db)
        c.handles = {}
        n.reals.append(c)
    return n


def dfs(ls, depth, acc, stats, first_ops=None):
    for i, op in enumerate(ALPHABET):
        if first_ops is not None and i not in first_ops:
            continue
        child = clone(ls)
        child.log.append(op)
        pre_validity(child, op)
        getattr(child, "op_" + op[0])(*op[1:])
        post_validity(child, op)
        child.check_contents()
        eq_hook(child, op)
        stats["nodes"] += 1
        kinds = [o[0] for o in child.log]
        rm = [k for k, o in enumerate(child.log) if o[0] in ("remove", "drop", "remove_all") or (o[0] == "insert_multiple" and o[5] is not None) or (o[0] == "update" and isinstance(o[3].get("tags"), list))]
        if rm and any(o[0] in ("insert", "insert_multiple") for o in child.log[rm[0] + 1 :]):
            acc.nontrivial_enum += 1
        if stats["nodes"] % 1499 == 0:
            acc.sample({"sequence": histcheck.summarize(child.log)}, cap=2)
        if depth > 1:
            dfs(child, depth - 1, acc, stats)
        del kinds


CSV2 = [("csv", True), ("csv", False)]


def shards(tier):
    depth = 4 if tier == "quick" else 5
    s = [{"kind": "exhaustive", "first": [i], "depth": depth} for i in range(len(ALPHABET))]
    # the same alphabet on CSV storage (no state cloning there: every sequence is replayed from an empty file)
    s += [{"kind": "exhaustive_csv", "first": i, "depth": 3 if tier == "quick" else 4} for i in range(len(ALPHABET))]
    n = 12
    for i in range(n):
        s.append({"kind": "hyp", "n": 150 if tier == "quick" else 1500, "max_ops": 25 if (tier == "quick" or i % 2 == 0) else 60})
    return s


def run_shard(spec, ctx):
    if spec["kind"] == "hyp":
        return _gen_shard(spec, ctx)
    if spec["kind"] == "exhaustive_csv":
        import itertools

        n = 0
        for rest in itertools.product(ALPHABET, repeat=spec["depth"] - 1):
            seq = [ALPHABET[spec["first"]]] + list(rest)
            ls = lockstep.Lockstep(ctx, configs=CSV2)
            ls.step_hooks = [eq_hook]
            ls.pre_hooks = [pre_validity]
            ls.post_hooks = [post_validity]
            try:
                ls.run(seq)
            finally:
                shutil.rmtree(ls.dir, ignore_errors=True)
            n += 1
            rm = [k for k, o in enumerate(seq) if o[0] in ("remove", "drop", "remove_all") or (o[0] == "insert_multiple" and o[5] is not None) or (o[0] == "update" and isinstance(o[3].get("tags"), list))]
            if rm and any(o[0] in ("insert", "insert_multiple") for o in seq[rm[0] + 1:]):
                ctx.acc.nontrivial_enum += 1
        ctx.acc.cls("exhaustive_csv_sequences", n)
        ctx.acc.extra = {"exhaustive_csv_sequences": n, "csv_depth": spec["depth"]}
        return
    ls = lockstep.Lockstep(ctx, configs=MEM)
    stats = {"nodes": 0}
    try:
        dfs(ls, spec["depth"], ctx.acc, stats, first_ops=set(spec["first"]))
    finally:
        shutil.rmtree(ls.dir, ignore_errors=True)
    ctx.acc.cls("exhaustive_sequences", stats["nodes"])
    ctx.acc.extra = {"exhaustive_nodes": stats["nodes"], "depth": spec["depth"]}


def replay(sub, case, ctx):
    configs = MEM if (case.get("config") or "").startswith("mem") and all(o in ALPHABET for o in case["ops"]) else None
    ls = lockstep.Lockstep(ctx, configs=configs)
    ls.step_hooks = [eq_hook]
    ls.pre_hooks = [pre_validity]
    ls.post_hooks = [post_validity]
    try:
        ls.run(case["ops"])
    finally:
        shutil.rmtree(ls.dir, ignore_errors=True)


def finish(merged, tier):
    nodes = sum(e.get("exhaustive_nodes", 0) for e in merged["extra"])
    depth = max([e.get("depth", 0) for e in merged["extra"]] or [0])
    ncsv = sum(e.get("exhaustive_csv_sequences", 0) for e in merged["extra"])
    dcsv = max([e.get("csv_depth", 0) for e in merged["extra"]] or [0])
    return {"exhaustive": True, "exhaustive_part": "all %d operation sequences of length <= %d over the 14-operation alphabet on MemoryStorage x {auto_index on, off}; all %d sequences of length %d (and thereby every shorter prefix) on CSVStorage x {auto_index on, off}" % (nodes, depth, ncsv, dcsv)}
