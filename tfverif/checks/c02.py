"""C02 — remove deletes exactly the matching points and nothing else.

Same lock-step machinery as C01 with a removal-heavy operation mix: remove(query[, measurement]) through the database and
through handles, drop_measurement / Measurement.remove_all, remove_all.  Oracle: the returned count equals the number of model
matches, the survivors equal the model's survivors as a list (present, unmodified, original order) in all four configurations,
a removal that matches nothing leaves contents and CSV bytes unchanged, and every later read still agrees with the model.
"""
from .. import histcheck, lockstep, qast

ID = "C02"
LEVEL = "exploration"
RULE = (
    "Hypothesis-generated histories with ~40% removal operations (queries from the DSL grammar incl. negations, field tests, compounds, and queries derived from a stored "
    "point so that they hit; measurement filters; via database, fresh handle, old handle) on 4 configurations, full contents compared with the model after every step, "
    "probes and getters afterwards. Non-trivial = history with a removal that deletes some but not all points, followed by at least one probe containing a time leaf "
    "or a getter call; distinct by operation list."
)
ASSUMPTIONS = ["measurement names are non-empty; user functions from the fixed registry; NaN excluded"]


def hook(ls, op):
    k = op[0]
    if k in ("remove", "remove_hit", "drop") and "remove_partial" in ls.flags:
        ls.flags.add("_armed")
    if "_armed" in ls.flags and k in ("probe", "probe_hit", "probe_twin") and "time" in qast.features(ls.last_query):
        ls.flags.add("time_probe_after_partial_remove")
    if "_armed" in ls.flags and k == "getters":
        ls.flags.add("getters_after_partial_remove")
    if k in ("remove", "remove_hit"):
        q = ls.last_remove_query
        for ft in qast.features(q) & {"not", "and", "or", "not_field_leaf", "field", "time", "regex", "field_map"}:
            ls.ctx.acc.cls("rq:" + ft)


def classify(ls, ops):
    return bool(ls.flags & {"time_probe_after_partial_remove", "getters_after_partial_remove"})


HOOKS = (hook,)
# a fifth configuration with a non-default text encoding and csv dialect: a rewrite stages the surviving rows in a second file,
# which has to be written and read back under the same storage options as the database itself (utf-16 can encode every generated
# string; every generated string survives Python's csv with a semicolon delimiter)
CONFIGS5 = lockstep.CONFIGS + [("csv", True, {"encoding": "utf-16", "delimiter": ";"}, ":utf16;")]
run_shard = histcheck.make_run_shard("remove", classify, HOOKS, configs=CONFIGS5)
replay = histcheck.make_replay(HOOKS, configs=CONFIGS5)


def shards(tier):
    # plus one shard of a few large data sets (110-330 points: storage positions beyond 256, where small-int identity ends)
    return histcheck.std_shards(tier, 700, 6000, bulk=2 if tier == "thorough" else 0) + [{"n": 8 if tier == "quick" else 60, "bulk": True, "bulk_points": 330, "max_ops": 25}]
