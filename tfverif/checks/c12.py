"""C12 — a crash at any I/O step leaves the file holding the old or the new contents.

Each generated history runs once under the I/O layer in snapshot mode: before every I/O step (and after the last one) the bytes of the database
file are read from disk through an untouched builtins.open - exactly what a SIGKILL at that instant leaves behind, user-space buffers being lost.
Every distinct image taken during an operation must open with a fresh read-only TinyFlux and with the independent reader, and decode to the
contents before that operation or after it (insert_multiple: old contents plus a prefix of the new points).
Thorough tier: the simulator is validated against reality - a forked child replays the history and SIGKILLs itself at step k; the file it leaves
must be byte-identical to simulated image k.
"""
import os
import shutil
import signal

from hypothesis import strategies as st

from .. import core, csvref, gen, gen_ops, histcheck, iolayer, lockstep, model, qast
from ..core import Violation

ID = "C12"
LEVEL = "fault_enumeration"
RULE = (
    "Hypothesis-generated histories of 1-8 write operations (insert, insert_multiple, hitting update / remove, drop_measurement, remove_all, early-stopping reads in between) on a CSV database with "
    "the default flush_on_insert=True, strings with CSV metacharacters, occasional rows > 8 KiB and occasional batches of 30 KiB rows (> 64 KiB per call; thorough: also batches of ~1 100 rows); for every operation EVERY I/O step boundary recorded by the I/O layer (write, flush, fsync, truncate, seek, close, "
    "temp-file steps, replace / copy sub-steps, reopen) is a crash point: the disk image at that boundary is decoded by a fresh TinyFlux and an independent reader. Non-trivial = crash image taken strictly inside an "
    "operation that changes the file (step index > 0 of the operation and before its last step); distinct by (operation kind, step kind, image digest)."
)
ASSUMPTIONS = [
    "crash = process death (SIGKILL): user-space buffers are lost, what reached the kernel survives; power loss and torn single write() calls are not modelled",
    "crash points are the boundaries between the I/O calls tinyflux.storages makes (text-level); thorough tier validates a sample of simulated images against real kills",
]


@st.composite
def histories(draw):
    pts = gen.points()
    big = st.builds(lambda p, n: dict(p, tags=dict(p["tags"], big="y," * n)), pts, st.integers(4200, 4600))
    anyp = st.one_of(pts, pts, pts, pts, big)
    # rows of 30-34 KiB (below csv's 128 KiB field limit): a batch of three or more exceeds 64 KiB, the block size of buffered copies
    huge = st.builds(lambda p, n: dict(p, tags=dict(p["tags"], big="y," * n)), pts, st.integers(15000, 17000))
    huge_batch = st.lists(st.one_of(huge, huge, huge, pts), min_size=3, max_size=5)
    seed_pts = draw(st.lists(anyp, min_size=0, max_size=5))
    ops = [["insert_multiple", seed_pts, 0, "asis", "db", None, "m1"]] if seed_pts else []
    one = st.one_of(
        st.tuples(st.just("insert"), anyp, st.integers(0, 3), st.booleans(), st.just("db"), st.booleans()).map(list),
        st.tuples(st.just("insert"), anyp, st.integers(0, 3), st.booleans(), st.just("db"), st.booleans()).map(list),
        st.tuples(st.just("insert_multiple"), st.lists(anyp, min_size=1, max_size=4), st.integers(0, 3), st.sampled_from(["inorder", "asis"]), st.just("db"), st.one_of(st.none(), st.none(), st.integers(0, 3)), st.just("m1")).map(list),
        gen_ops.op_remove_hit(), gen_ops.op_remove_hit(), gen_ops.op_update_hit(), gen_ops.op_update_hit(), gen_ops.op_update_hit(True),
        gen_ops.op_drop(), gen_ops.op_remove_all(), gen_ops.op_probe_hit(), gen_ops.op_reindex(),
    )
    ops += draw(st.lists(one, min_size=1, max_size=8))
    if draw(st.integers(0, 11)) == 0:
        at = draw(st.integers(0, len(ops)))
        ops.insert(at, ["insert_multiple", draw(huge_batch), draw(st.integers(0, 3)), draw(st.sampled_from(["inorder", "asis"])), "db", None, "m1"])
    return {"ops": ops, "auto_index": draw(st.booleans()), "symlink": draw(st.integers(0, 7)) == 0, "hardlink": draw(st.integers(0, 7)) == 0}


def bulk_case(n, auto):
    """One insert_multiple of n small points (more than 64 KiB of rows) after a few seed points, then a removal: thorough tier."""
    t = gen.TIMES[3]
    base = [{"time": t, "measurement": "m1", "tags": {"a": "x"}, "fields": {"a": 1}}, {"time": t, "measurement": "m2", "tags": {"a": "x,y"}, "fields": {}}]
    batch = [{"time": gen.TIMES[0], "measurement": "m1" if i % 7 else "a,b", "tags": {"a": "x", "n": "row-%05d" % i}, "fields": {"a": i % 3, "f": 2.0}} for i in range(n)]
    return {"ops": [["insert_multiple", base, 0, "asis", "db", None, "m1"], ["insert_multiple", batch, 0, "asis", "db", None, "m1"]], "auto_index": auto}


def make_link(path):
    """The database is opened through a symbolic link (a common deployment: data directory elsewhere); what counts after a crash
    is what the path the user opened leads to."""
    target = path + ".target"
    with open(target, "w"):
        pass
    os.symlink(os.path.basename(target), path)


def make_hardlink(path):
    """The database file has a second name (a hard-linked backup): what counts is still what the opened path leads to."""
    if not os.path.exists(path):
        with open(path, "w"):
            pass
    os.link(path, path + ".second-name")


def decode_image(img, d, n, auto):
    """(points seen by the independent reader, points seen by a fresh TinyFlux) or raises."""
    from tinyflux import TinyFlux

    p = os.path.join(d, "image%d.csv" % n)
    with open(p, "wb") as f:
        f.write(img)
    ref = csvref.decode(img)
    db = TinyFlux(p, access_mode="r", auto_index=auto)
    try:
        got = [model.from_point(x) for x in db.all(sorted=False)]
    finally:
        db.close()
    os.remove(p)
    return ref, got


def run_case(case, ctx, acc, kill_validation=0):
    try:
        return _run_case(case, ctx, acc, kill_validation)
    except Violation as v:
        v.case = dict(v.case, auto_index=case["auto_index"], symlink=bool(case.get("symlink")), hardlink=bool(case.get("hardlink")), ops=v.case.get("ops", case["ops"]))
        v.case.pop("config", None)
        raise


def _run_case(case, ctx, acc, kill_validation=0):
    ls = lockstep.Lockstep(ctx, configs=[("csv", case["auto_index"])])
    real = ls.reals[0]
    real.close()
    os.remove(real.path)
    if case.get("symlink"):
        make_link(real.path)
    if case.get("hardlink"):
        make_hardlink(real.path)
    world = iolayer.World(real.path, mode="snapshot")
    info = {"ops": [], "nontrivial": 0}
    try:
        with iolayer.installed(world):
            real.open()
            try:
                for op in case["ops"]:
                    ls.log.append(op)
                    s0 = len(world.events)
                    before = ls.model.copy().points
                    # acceptable intermediate contents
                    getattr(ls, "op_" + op[0])(*op[1:])
                    s1 = len(world.events)
                    after = ls.model.copy().points
                    states = [before, after]
                    if op[0] == "insert_multiple":
                        added = after[len(before):]
                        states = [before + added[:k] for k in range(len(added) + 1)]
                    # image right after the operation returned / raised, taken before anything else touches the database
                    # (no harness read in between: a read would flush buffers the way real use would not)
                    info["ops"].append((op, s0, s1, states, world.disk()))
            finally:
                world.armed = False
                final = world.disk()
                real.close()
    finally:
        iolayer.uninstall()
    if world.blind_spots:
        shutil.rmtree(ls.dir, ignore_errors=True)
        raise core.HarnessError("I/O that bypassed the proxies: %r" % (world.blind_spots[:3],))
    snaps = world.snaps + [final]
    try:
        cache = {}
        n = 0
        for op, s0, s1, states, end_img in info["ops"]:
            for k in range(s0, s1 + 1):
                img = end_img if k == s1 else snaps[k]
                if img is None:
                    raise Violation("file-missing", dict(case, crash_step=k), "a crash before I/O step %d (%s) of %s leaves no database file at all" % (k - s0, world.events[k] if k < len(world.events) else "end", op[0]))
                key = img
                if key not in cache:
                    n += 1
                    try:
                        cache[key] = decode_image(img, ls.dir, n, case["auto_index"])
                    except Exception as e:
                        cache[key] = e
                res = cache[key]
                acc.ev()
                stepname = "%s/%s" % world.events[k] if k < len(world.events) else "after-last-step"
                where = "a crash before I/O step %d of %d (%s) of operation #%d %s" % (k - s0, s1 - s0, stepname, len([1 for o in info["ops"] if o[1] <= s0]), op[0])
                if isinstance(res, Exception):
                    raise Violation("undecodable", dict(case, crash_step=k), "%s leaves a file (%d bytes) that cannot be opened: %r" % (where, len(img), res))
                ref, got = res
                if ref != got:
                    raise Violation("readers-disagree", dict(case, crash_step=k), "%s: independent reader and TinyFlux decode the crash image differently" % where)
                if k == s1 and got != states[-1]:
                    raise Violation("lost-after-return", dict(case, crash_step=k), "a crash right after operation #%d %s has finished leaves %d points %s, but the operation's result is %d points %s" % (len([1 for o in info["ops"] if o[1] <= s0]), op[0], len(got), lockstep.brief(got), len(states[-1]), lockstep.brief(states[-1])))
                if got not in states:
                    raise Violation("neither-old-nor-new", dict(case, crash_step=k), "%s leaves %d points %s; contents before the operation: %d points, after: %d points" % (where, len(got), lockstep.brief(got), len(states[0]), len(states[-1])))
                if s0 < k < s1 and states[0] != states[-1]:
                    acc.nt([op[0], stepname, core.digest(img).hex()])
                    info["nontrivial"] += 1
                    acc.cls("crash_at:" + stepname)
            acc.cls("op:" + op[0])
        if kill_validation:
            validate_with_real_kills(case, snaps, len(world.events), ctx, acc, kill_validation)
    finally:
        shutil.rmtree(ls.dir, ignore_errors=True)
    return info


def replay_child(case, path, kill_at):
    """Child process: replay the history on `path` and SIGKILL self at step kill_at."""
    # same executor as the simulated run, no harness reads
    ctx = core.Ctx("kill", 0, set(), os.path.dirname(path), 0)
    ls = lockstep.Lockstep(ctx, configs=[("csv", case["auto_index"])])
    real = ls.reals[0]
    real.close()
    os.remove(real.path)
    real.path = path
    if case.get("symlink"):
        make_link(path)
    if case.get("hardlink"):
        make_hardlink(path)
    world = iolayer.World(path, mode="record", kill_at=kill_at)
    iolayer.install(world)
    real.open()
    for op in case["ops"]:
        ls.log.append(op)
        getattr(ls, "op_" + op[0])(*op[1:])
    os._exit(0)


def validate_with_real_kills(case, snaps, nsteps, ctx, acc, count):
    ks = sorted({(i * 2654435761) % (nsteps + 1) for i in range(count)})
    for k in ks:
        d = ctx.fresh_dir()
        path = os.path.join(d, "kill.csv")
        pid = os.fork()
        if pid == 0:
            try:
                import sys

                sys.stdout = open(os.devnull, "w")
                replay_child(case, path, k)
            finally:
                os._exit(3)
        _, status = os.waitpid(pid, 0)
        killed = os.WIFSIGNALED(status) and os.WTERMSIG(status) == signal.SIGKILL
        if k >= nsteps:
            killed = True  # ran to completion
        left = open(path, "rb").read() if os.path.exists(path) else None
        expect = snaps[k] if k < len(snaps) else snaps[-1]
        shutil.rmtree(d, ignore_errors=True)
        if not killed:
            raise core.HarnessError("kill-validation child did not die by SIGKILL at step %d (status %r)" % (k, status))
        if left != expect:
            raise Violation("simulator-mismatch", dict(case, crash_step=k), "real SIGKILL at step %d leaves %r bytes, the simulated image has %r bytes" % (k, None if left is None else len(left), None if expect is None else len(expect)))
        acc.cls("real_kills_validated")
        acc.extra["traces_validated_against_impl"] = acc.extra.get("traces_validated_against_impl", 0) + 1


def shards(tier):
    return [{"n": 170 if tier == "quick" else 1500, "kills": 0 if tier == "quick" else (3 if i % 2 == 0 else 0), "bulk": (1000 + 37 * i) if tier == "thorough" and i % 4 == 1 else 0} for i in range(16)]


def run_shard(spec, ctx):
    acc = ctx.acc
    counter = {"n": 0}

    def check(case):
        counter["n"] += 1
        kills = spec["kills"] if counter["n"] % 10 == 0 else 0
        info = run_case(case, ctx, acc, kills)
        if info["nontrivial"]:
            acc.sample({"auto_index": case["auto_index"], "history": histcheck.summarize(case["ops"], 6), "crash_points_inside_changing_ops": info["nontrivial"]}, cap=2, every=23)

    if spec.get("bulk"):
        # crash points inside one large batch (every row boundary of ~1 100 rows): no minimisation, the case is already canonical
        info = run_case(bulk_case(spec["bulk"], ctx.shard_index % 2 == 0), ctx, acc, 0)
        acc.cls("bulk_batch_cases")
        acc.cls("bulk_batch_crash_points", info["nontrivial"])
    v = core.hyp_search(check, histories(), ctx.seed, spec["n"], shrink=False)
    if v is not None:
        raise minimize(v, ctx)


def minimize(v, ctx, budget=60):
    case = {k: v.case[k] for k in ("ops", "auto_index")}
    link = bool(v.case.get("symlink"))
    hard = bool(v.case.get("hardlink"))
    ops = list(case["ops"])
    best = v
    i = 0
    while i < len(ops) and budget > 0:
        cand = ops[:i] + ops[i + 1:]
        budget -= 1
        if not cand:
            i += 1
            continue
        try:
            run_case({"ops": cand, "auto_index": case["auto_index"], "symlink": link, "hardlink": hard}, core.Ctx("minimize", 0, ctx.known, ctx.scratch, 0), core.Acc())
            i += 1
        except Violation as w:
            if w.sub == v.sub:
                ops = cand
                best = w
            else:
                i += 1
        except Exception:
            i += 1
    return best


def replay(sub, case, ctx):
    run_case({"ops": case["ops"], "auto_index": case["auto_index"], "symlink": bool(case.get("symlink")), "hardlink": bool(case.get("hardlink"))}, ctx, ctx.acc)


def finish(merged, tier):
    n = sum(e.get("traces_validated_against_impl", 0) for e in merged["extra"])
    return {"traces_validated_against_impl": n}
