"""C15 — reads and no-op writes change nothing and leave nothing behind.

Generated histories on CSV databases opened with access_mode in {r+, r, a, w+} (r and a on a pre-populated file; a with auto_index off, since its
constructor cannot read).  Around every read operation, getter, iteration, reindex, removal/update that matches or changes nothing, and every write
attempted in a mode that forbids it (which must raise OSError), the database file must stay byte-for-byte identical.  After every operation of any
kind - returned or raised - the private temp directory must be empty and the database directory must contain the database file only.
"""
import os
import shutil
import tempfile

from hypothesis import strategies as st

from .. import core, gen, gen_ops, lockstep, model, qast
from ..core import Violation

ID = "C15"
LEVEL = "exploration"
RULE = (
    "Hypothesis-generated (access mode, auto_index, history) cases; history mixes real writes (insert incl. compact prefixes, insert_multiple incl. a non-Point in the middle, hitting remove/update, "
    "update whose callable raises) with reads (search/count/contains/get/select, all getters, len, iteration, all), reindex, removals that match nothing and updates that change nothing (unset of an absent key, "
    "echo callables, same-instant time in another zone, re-setting current values); file bytes compared before/after every read or no-op, directory listings after every operation; gated writes on r / a must raise OSError. "
    "Non-trivial = history with a no-op update/remove on a non-empty database (the rewrite machinery runs but must not swap) or a gated write on r / a; distinct by (mode, operation list)."
)
ASSUMPTIONS = ["the temp directory is a private per-case directory (tempfile.tempdir), so leftovers are attributable", "python -O (asserts stripped) is not among the configurations"]

NEVER = ["leaf", "tag", [["key", "zz_never"]], ["cmp", "==", "x"]]
NOOPQ = ["leaf", "time", [], ["noop"]]


@st.composite
def cases(draw):
    mode = draw(st.sampled_from(["r+", "r+", "r", "a", "w+"]))
    auto = False if mode == "a" else draw(st.booleans())
    pre = draw(st.lists(gen.points(), min_size=1, max_size=6)) if mode != "w+" else []
    pre_compact = draw(st.booleans())
    one = st.one_of(
        gen_ops.op_probe_hit(), gen_ops.op_probe(), gen_ops.op_getters(), gen_ops.op_getters(),
        st.just(["reindex"]), st.just(["len_iter_all"]),
        st.tuples(st.just("noop_remove"), st.sampled_from(["never", "gen"]), gen.queries(2), gen.meas_filter()).map(list),
        st.tuples(st.just("noop_update"), st.sampled_from(["unset_absent_tag", "unset_absent_field", "tags_echo", "fields_echo", "time_other_zone", "time_same", "empty_tags_fn", "never_query", "set_unset_absent_tag", "set_unset_absent_field"]), gen_ops.hit_spec()).map(list),
        st.tuples(st.just("noop_update"), st.sampled_from(["unset_absent_tag", "unset_absent_field", "tags_echo", "time_other_zone"]), gen_ops.hit_spec()).map(list),
        st.tuples(st.just("insert"), gen.points(), st.booleans()).map(list),
        st.tuples(st.just("insert"), gen.points(), st.booleans()).map(list),
        # a removal / update scoped to one measurement whose query matches a point of ANOTHER measurement only: matches nothing
        st.tuples(st.just("noop_foreign"), gen_ops.hit_spec(), st.sampled_from(["remove_h", "remove_m", "update_h"]), st.booleans()).map(list),
        # an update that sets a field to a value equal to the stored one and written the same way (1.0 for 1, 0 for 0.0): changes nothing
        st.tuples(st.just("noop_equal_value"), gen_ops.hit_spec()).map(list),
        st.tuples(st.just("insert_multiple"), st.lists(gen.points(), min_size=1, max_size=3), st.one_of(st.none(), st.integers(0, 3))).map(list),
        st.tuples(st.just("remove_hit"), gen_ops.hit_spec()).map(list),
        st.tuples(st.just("update_hit"), gen_ops.hit_spec(), st.sampled_from([{"tags": {"a": "upd"}}, {"fields": {"f": 7}}, {"measurement": "m2"}, {"unset_tags": "a"}, {"tags": ["fn_raise", 1, "tags_const"]}, {"tags": ["fn_raise", 2, "tags_const"]}, {"tags": "KBINT"}, {"fields": "KBINT"}])).map(list),
        st.just(["remove_all"]), st.just(["drop", "m1"]),
    )
    return {"mode": mode, "auto_index": auto, "pre": pre, "pre_compact": pre_compact, "ops": draw(st.lists(one, min_size=2, max_size=14))}


class Run:
    def __init__(self, case, ctx):
        self.case, self.ctx, self.acc = case, ctx, ctx.acc
        self.d = ctx.fresh_dir()
        self.dbdir = os.path.join(self.d, "db")
        self.tmpdir = os.path.join(self.d, "tmp")
        os.makedirs(self.dbdir)
        os.makedirs(self.tmpdir)
        self.path = os.path.join(self.dbdir, "db.csv")
        self.model = model.Model()
        self.flags = set()
        self.step = 0

    def fail(self, sub, msg):
        raise Violation(sub, self.case, "[mode=%s auto_index=%s] step %d %s: %s" % (self.case["mode"], self.case["auto_index"], self.step, self.case["ops"][self.step - 1][0] if self.step else "open", msg))

    def bytes(self):
        with open(self.path, "rb") as f:
            return f.read()

    def listing(self):
        return sorted(os.listdir(self.tmpdir)), sorted(os.listdir(self.dbdir))

    def check_dirs(self, when):
        t, dd = self.listing()
        if t:
            self.fail("temp-left-behind", "%s: temp directory contains %r" % (when, t))
        if dd != ["db.csv"]:
            self.fail("dbdir-changed", "%s: database directory contains %r" % (when, dd))
        self.acc.ev()

    def unchanged(self, fn, what, expect_oserror=False):
        """Run fn; the file must be byte-identical afterwards. Returns fn's result (or the exception when one is expected)."""
        before = self.bytes()
        out = None
        try:
            out = fn()
            if expect_oserror:
                self.fail("gate-missing", "%s returned %r although access mode %r forbids it (OSError expected)" % (what, out, self.case["mode"]))
        except Violation:
            raise
        except OSError as e:
            if not expect_oserror:
                self.fail("unexpected-oserror", "%s raised %r" % (what, e))
            out = e
        except KeyboardInterrupt:
            # raised by the harness's own interrupting callback: a gated operation must refuse before it runs user callbacks
            if expect_oserror:
                self.fail("gate-missing", "%s ran the update callbacks although access mode %r forbids the operation (OSError expected)" % (what, self.case["mode"]))
            raise
        except Exception as e:
            if expect_oserror:
                # the statement says "must raise", not which exception: anything but OSError is only counted
                self.acc.cls("gate_raised_%s" % type(e).__name__)
            elif not isinstance(e, (lockstep.CallableRaised, TypeError)):
                self.fail("unexpected-exception", "%s raised %s(%s)" % (what, type(e).__name__, e))
            out = e
        after = self.bytes()
        if after != before:
            self.fail("bytes-changed", "%s changed the file (%d -> %d bytes; first difference at offset %d)" % (what, len(before), len(after), next((i for i, (x, y) in enumerate(zip(before, after)) if x != y), min(len(before), len(after)))))
        self.acc.ev()
        return out

    def run(self):
        from tinyflux import TinyFlux

        case = self.case
        mode = case["mode"]
        old_tmp = tempfile.tempdir
        tempfile.tempdir = self.tmpdir
        try:
            # pre-populate through the API in the default mode
            db0 = TinyFlux(self.path)
            for p in case["pre"]:
                db0.insert(gen.to_point(p), compact_key_prefixes=case["pre_compact"])
                self.model.insert(p)
            db0.close()
            self.check_dirs("after pre-population")
            db = TinyFlux(self.path, access_mode=mode, auto_index=case["auto_index"])
            if mode == "w+":
                self.model = model.Model()
            self.db = db
            can_read = mode in ("r+", "r", "w+")
            can_append = mode in ("r+", "w+", "a")
            can_write = mode in ("r+", "w+")
            try:
                for op in case["ops"]:
                    self.step += 1
                    self.do(op, can_read, can_append, can_write)
                    self.check_dirs("after the operation")
            finally:
                db.close()
            self.check_dirs("after close")
        finally:
            tempfile.tempdir = old_tmp
            shutil.rmtree(self.d, ignore_errors=True)

    def do(self, op, can_read, can_append, can_write):
        db, k = self.db, op[0]
        m = self.model
        if k in ("probe", "probe_hit", "probe_twin"):
            if k == "probe_hit":
                ls = _Resolver(m)
                q = lockstep.Lockstep.resolve_hit(ls, op[1], op[2])
                meas = lockstep.Lockstep._m_of_hit(ls, op[1], op[3])
                keys = op[4]
            else:
                q, meas, keys = op[1], op[2], op[3]
            bq = qast.build(q)
            a = [meas] if meas is not None else []

            def reads():
                return (db.search(bq, *a), db.count(bq, *a), db.contains(bq, *a), db.get(bq, *a), db.select(keys, bq, *a))

            r = self.unchanged(reads, "search/count/contains/get/select", expect_oserror=not can_read)
            if can_read:
                exp = m.matches(q, meas)
                if [model.from_point(p) for p in r[0]] != model.time_sorted(exp) or r[1] != len(exp):
                    self.fail("read-wrong", "search/count disagree with the model for %s" % qast.show(q))
        elif k == "getters":
            meas = op[1]
            a = [meas] if meas is not None else []
            self.unchanged(lambda: (db.get_measurements(), db.get_tag_keys(*a), db.get_tag_values(list(op[2]), *a), db.get_field_keys(*a), db.get_field_values(op[3], *a), db.get_timestamps(*a)), "getters", expect_oserror=not can_read)
        elif k == "len_iter_all":
            def f():
                h = db.measurement("m1")
                return (len(db), list(iter(db)), db.all(), db.all(sorted=False), len(h), list(iter(h)), h.all())

            if can_read:
                r = self.unchanged(f, "len/iter/all")
                if r[0] != len(m.points):
                    self.fail("read-wrong", "len(db) = %r, model holds %d" % (r[0], len(m.points)))
            else:
                self.unchanged(lambda: db.all(), "all()", expect_oserror=True)
        elif k == "reindex":
            self.unchanged(db.reindex, "reindex()", expect_oserror=not can_read)
        elif k == "noop_remove":
            q = NEVER if op[1] == "never" or m.matches(op[2], op[3]) else op[2]
            meas = op[3]
            a = [meas] if meas is not None else []
            r = self.unchanged(lambda: db.remove(qast.build(q), *a), "remove(%s) matching nothing" % qast.show(q), expect_oserror=not (can_read and can_write))
            # (the returned count is C02's subject; here only bytes and leftovers matter)
            if m.points:
                self.flags.add("noop_on_nonempty")
        elif k == "noop_update":
            kind = op[1]
            ls = _Resolver(m)
            q = lockstep.Lockstep.resolve_hit(ls, op[2], NEVER) if kind != "never_query" else NEVER
            kw = {
                "unset_absent_tag": {"unset_tags": "zz_absent"}, "unset_absent_field": {"unset_fields": ["zz_absent", "zz2"]}, "tags_echo": {"tags": lockstep.u_tags_echo},
                "fields_echo": {"fields": lockstep.u_fields_echo}, "time_other_zone": {"time": lockstep.u_time_other_zone}, "time_same": {"time": lockstep.u_time_same},
                "empty_tags_fn": {"tags": lockstep.u_tags_empty}, "never_query": {"tags": {"a": "upd"}},
                # a key that no point carries, set and unset by the same call: nothing changes
                "set_unset_absent_tag": {"tags": {"zz_k": "1"}, "unset_tags": ["zz_k"]}, "set_unset_absent_field": {"fields": {"zz_k": 1}, "unset_fields": "zz_k"},
            }[kind]
            r = self.unchanged(lambda: db.update(qast.build(q), **kw), "update(%s, %s) changing nothing" % (qast.show(q), kind), expect_oserror=not (can_read and can_write))
            # (the returned count is C03's subject; here only bytes and leftovers matter)
            if m.points:
                self.flags.add("noop_on_nonempty")
        elif k == "noop_foreign":
            if not m.points or not (can_read and can_write):
                return
            names = sorted({x["measurement"] for x in m.points})
            if len(names) < 2:
                return
            scope = names[op[1][0] % len(names)]
            h = db.measurement(scope)
            target = None
            if op[3]:
                # a scoped read first (whatever it memoises per measurement must not decide what a later write touches) ...
                self.unchanged(lambda: (h.count(qast.build(NOOPQ)), h.get_tag_keys(), h.get_timestamps()), "scoped reads")
                # ... then rows of another measurement lying before this measurement's rows are removed, so that every later row
                # moves up; preferably a foreign row ends up on a position this measurement used to occupy
                old_pos = {i for i, x in enumerate(m.points) if x["measurement"] == scope}
                for x in [x for x in m.points[: max(old_pos)] if x["measurement"] != scope]:
                    gone = lambda y, _x=x: y["measurement"] == _x["measurement"] and y["time"] == _x["time"]  # noqa: E731
                    keep = [y for y in m.points if not gone(y)]
                    cands = [y for i, y in enumerate(keep) if y["measurement"] != scope and i in old_pos]
                    if cands:
                        q_rm = ["and", ["leaf", "meas", [], ["cmp", "==", x["measurement"]]], ["leaf", "time", [], ["cmp", "==", x["time"]]]]
                        try:
                            db.remove(qast.build(q_rm))
                        except Exception as e:
                            self.fail("write-raised", "remove raised %r" % (e,))
                        m.remove(q_rm)
                        target = cands[op[1][2] % len(cands)]
                        self.acc.cls("noop_foreign_after_renumbering")
                        break
            if target is None:
                foreign = [x for x in m.points if x["measurement"] != scope]
                if not foreign:
                    return
                target = foreign[op[1][2] % len(foreign)]
            ti = next(i for i, y in enumerate(m.points) if y is target)
            q = lockstep.Lockstep.resolve_hit(_Resolver(m), [ti, op[1][1], 0, 0], NEVER)
            if m.matches(q, scope) or not m.matches(q, target["measurement"]):
                return
            fn = {"remove_h": lambda: h.remove(qast.build(q)), "remove_m": lambda: db.remove(qast.build(q), scope), "update_h": lambda: h.update(qast.build(q), tags={"zz_foreign": "1"})}[op[2]]
            r = self.unchanged(fn, "%s scoped to %r with a query matching only a point of %r" % (op[2], scope, target["measurement"]))
            if r != 0:
                self.fail("foreign-touched", "%s scoped to %r returned %r for a query that matches no point of that measurement" % (op[2], scope, r))
            self.flags.add("noop_on_nonempty")
            self.acc.cls("noop_foreign_" + op[2])
        elif k == "noop_equal_value":
            if not m.points:
                return
            p = m.points[op[1][0] % len(m.points)]
            cands = [(k_, v) for k_, v in sorted(p["fields"].items()) if isinstance(v, (int, float)) and not isinstance(v, bool) and v == v and abs(v) != float("inf") and float(v).is_integer()]
            if not cands:
                return
            fk, v = cands[op[1][2] % len(cands)]
            if v == 0 and str(float(v)) == "-0.0":
                return  # writing 0.0 over -0.0 arguably IS a change of what is stored: not claimed either way
            same = float(v) if isinstance(v, int) else int(v)  # 1 <-> 1.0: equal, and the same text in the file
            ls = _Resolver(m)
            q = ["and", lockstep.Lockstep.resolve_hit(ls, [op[1][0], "time", 0, 0], NEVER), ["leaf", "field", [["key", fk]], ["cmp", "==", v]]]
            if any(str(float(x["fields"][fk])) == "-0.0" for x in m.matches(q)):
                return  # (the query cannot tell 0 from -0.0; see above)
            self.unchanged(lambda: db.update(qast.build(q), fields={fk: same}), "update setting field %r to %r where it is %r already" % (fk, same, v), expect_oserror=not (can_read and can_write))
            if m.points:
                self.flags.add("noop_on_nonempty")
            self.acc.cls("noop_equal_value")
        elif k == "insert":
            if can_append:
                try:
                    db.insert(gen.to_point(op[1]), compact_key_prefixes=op[2])
                except Exception as e:
                    self.fail("write-raised", "insert raised %r" % (e,))
                m.insert(op[1])
            else:
                self.unchanged(lambda: db.insert(gen.to_point(op[1])), "insert", expect_oserror=True)
                self.flags.add("gated_write")
        elif k == "insert_multiple":
            items = [gen.to_point(p) for p in op[1]]
            if op[2] is not None:
                items.insert(min(op[2], len(items)), "not a point")
            if can_append:
                try:
                    db.insert_multiple(items)
                    if op[2] is not None:
                        self.fail("accepted", "insert_multiple accepted a non-Point")
                    good = op[1]
                except (TypeError, ValueError):
                    good = op[1][: min(op[2], len(op[1]))] if op[2] is not None else op[1]
                except Violation:
                    raise
                except Exception as e:
                    self.fail("write-raised", "insert_multiple raised %r" % (e,))
                for p in good:
                    m.insert(p)
            else:
                self.unchanged(lambda: db.insert_multiple(items), "insert_multiple", expect_oserror=True)
                self.flags.add("gated_write")
        elif k in ("remove_hit", "update_hit", "remove_all", "drop"):
            ls = _Resolver(m)
            if k == "remove_hit":
                q = lockstep.Lockstep.resolve_hit(ls, op[1], NEVER)
                fn, what = (lambda: db.remove(qast.build(q))), "remove"
            elif k == "update_hit":
                q = lockstep.Lockstep.resolve_hit(ls, op[1], NEVER)
                kw = {}
                raises = False
                kbint = False
                for s_, v in op[2].items():
                    if v == "KBINT":
                        # a user callback interrupted by Ctrl-C: not an Exception, but the operation is left all the same
                        def _interrupt(old):
                            raise KeyboardInterrupt()

                        kw[s_] = _interrupt
                        kbint = bool(m.matches(q))
                        raises = kbint
                    elif isinstance(v, list) and v and v[0] == "fn_raise":
                        kw[s_], _ = lockstep.make_callable(s_, v)
                        raises = v[1] <= len(m.matches(q))
                    else:
                        kw[s_] = v
                fn, what = (lambda: db.update(qast.build(q), **kw)), "update"
            elif k == "remove_all":
                fn, what = db.remove_all, "remove_all"
            else:
                fn, what = (lambda: db.drop_measurement(op[1])), "drop_measurement"
            allowed = can_write and (can_read or k == "remove_all")
            if not allowed:
                self.unchanged(fn, what, expect_oserror=True)
                self.flags.add("gated_write")
                return
            if k == "update_hit" and raises:
                if kbint:
                    def guarded():
                        try:
                            return fn()
                        except KeyboardInterrupt:
                            return "interrupted"

                    self.unchanged(guarded, "update interrupted by KeyboardInterrupt in a callback")
                    self.flags.add("interrupted_update")
                    return
                self.unchanged(fn, "update whose callable raises")
                return
            try:
                fn()
            except Exception as e:
                self.fail("write-raised", "%s raised %r" % (what, e))
            if k == "remove_hit":
                m.remove(q)
            elif k == "update_hit":
                margs = {s_: (lockstep.UPD[s_][v[-1]] if isinstance(v, list) else v) for s_, v in op[2].items() if v != "KBINT"}
                if not margs:
                    return  # the interrupting callback selected nothing: the call returned 0 without touching anything
                m.update(q, None, **margs)
            elif k == "remove_all":
                m.remove_all()
            else:
                m.remove(None, op[1])
        else:
            raise core.HarnessError("unknown op %r" % (op,))


class _Resolver:
    """Just enough of Lockstep for resolve_hit / _m_of_hit."""

    def __init__(self, m):
        self.model = m


def shards(tier):
    return [{"n": 220 if tier == "quick" else 3000} for _ in range(16)]


def run_shard(spec, ctx):
    acc = ctx.acc

    def check(case):
        r = Run(case, ctx)
        r.run()
        acc.cls("mode_" + case["mode"])
        for f in r.flags:
            acc.cls("hist:" + f)
        if r.flags & {"noop_on_nonempty", "gated_write"}:
            acc.nt(case)
            acc.sample({"mode": case["mode"], "auto_index": case["auto_index"], "pre": len(case["pre"]), "ops": [o[0] + (":" + str(o[1]) if o[0].startswith("noop") else "") for o in case["ops"]]}, cap=2, every=31)

    v = core.hyp_search(check, cases(), ctx.seed, spec["n"])
    if v is not None:
        raise v


def replay(sub, case, ctx):
    Run(case, ctx).run()
