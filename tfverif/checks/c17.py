"""C17 — queries that compare equal behave identically.

Oracle: q1 == q2 implies hash(q1) == hash(q2) and q1(p) == q2(p) for every point p of the finite universe
(points varying all slots either operand reads, plus a fixed spread of U); == is symmetric;
(a & b) == (b & a) and (a | b) == (b | a) for all hashable a, b; an expression containing a map function
is unequal to everything, itself included.
Exhaustive: all ordered pairs of independently built vocabulary leaves; all ordered pairs of the depth<=2
expressions over a 23-leaf confusable core.  Generated: structure-preserving perturbations of random deeper expressions.
"""
import itertools
from datetime import timedelta

from hypothesis import strategies as st

from .. import core, gen, qast, universe
from ..core import Violation
from ..universe import K, L, M, NPT
from ..gen import T0

ID = "C17"
LEVEL = "exploration"
RULE = (
    "exhaustive: (1) every ordered pair of independently built leaves of the C09 vocabulary; (2) every ordered pair of the depth<=2 expressions "
    "(l, ~l, l&l', l|l') over a 23-leaf confusable core (same regex with different flags, same path with different operator, rhs 1/1.0/True and 0/-0.0, "
    "equal instants in different zones, same test function with different args, map leaves incl. map-then-key, noop, tag vs field on one key); "
    "(2b) every ordered pair of the 1 200 expressions with up to two connective levels over 3 leaves; (3) commutativity of & and | over every ordered pair of hashable depth<=1 expressions and a slice of depth-2 ones. Generated: random expressions up to depth 4 paired with a "
    "perturbed copy (swapped operands, one flag/rhs/operator changed, one connective flipped, re-associated, rebuilt unchanged). Non-trivial = a pair that compares equal (behaviour is then compared "
    "on all universe points that vary the slots read) or a commuted pair; distinct by the two expressions."
)
ASSUMPTIONS = ["behaviour is compared on the finite universe of C09; user functions are deterministic"]


def confusable_core():
    c = [
        (L("tag", [K("a")], ["matches", "x", 0]), ("tag.a",)),
        (L("tag", [K("a")], ["matches", "x", 2]), ("tag.a",)),
        (L("tag", [K("a")], ["search", "x", 0]), ("tag.a",)),
        (L("tag", [K("a")], ["search", "x", 2]), ("tag.a",)),
        (L("tag", [K("a")], ["search", "x$", 16]), ("tag.a",)),
        (L("tag", [K("a")], ["cmp", "==", "x"]), ("tag.a",)),
        (L("tag", [K("a")], ["cmp", "!=", "x"]), ("tag.a",)),
        (L("tag", [K("b")], ["cmp", "==", "x"]), ("tag.b",)),
        (L("field", [K("a")], ["cmp", "==", 1]), ("field.a",)),
        (L("field", [K("a")], ["cmp", "==", 1.0]), ("field.a",)),
        (L("field", [K("a")], ["cmp", "==", True]), ("field.a",)),
        (L("field", [K("a")], ["cmp", "<=", 0]), ("field.a",)),
        (L("field", [K("a")], ["cmp", "<=", -0.0]), ("field.a",)),
        (L("time", [], ["cmp", "==", T0]), ("time",)),
        (L("time", [], ["cmp", "==", T0.astimezone(NPT)]), ("time",)),
        (L("time", [], ["cmp", "==", T0 + timedelta(microseconds=1)]), ("time",)),
        (L("tag", [K("a")], ["test", "in", ["x"]]), ("tag.a",)),
        (L("tag", [K("a")], ["test", "in", ["X"]]), ("tag.a",)),
        (L("tag", [K("a"), M("upper")], ["cmp", "==", "X"]), ("tag.a",)),
        (L("field", [M("ident"), K("a")], ["cmp", "==", 1]), ("field.a",)),
        (L("tag", [K("a")], ["noop"]), ()),
        (L("tag", [K("a")], ["exists"]), ("tag.a",)),
        (L("field", [K("a")], ["exists"]), ("field.a",)),
    ]
    return c


SPREAD = None


def spread_points():
    global SPREAD
    if SPREAD is None:
        pts = list(universe.all_points())
        SPREAD = [(p, gen.to_point(p)) for p in pts[:: len(pts) // 60]]
    return SPREAD


def has_map(q):
    # a noop leaf discards its path, so a function given before .noop() is not part of the resulting query
    return any(part[0] == "map" for leaf in qast.leaves(q) if leaf[3][0] != "noop" for part in leaf[2])


def safe_eq(a, b, qa, qb):
    try:
        r = a == b
    except Exception as e:
        raise Violation("eq-raises", {"q1": qa, "q2": qb}, "comparing %s == %s raised %r" % (qast.show(qa), qast.show(qb), e))
    if r is not True and r is not False:
        raise Violation("eq-type", {"q1": qa, "q2": qb}, "%s == %s returned %r" % (qast.show(qa), qast.show(qb), r))
    return r


def check_pair(qa, a, sa, qb, b, sb, acc):
    """a, b are independently built tinyflux queries for qa, qb; sa/sb the slots they read. Returns True if equal."""
    e1 = safe_eq(a, b, qa, qb)
    e2 = safe_eq(b, a, qb, qa)
    acc.ev()
    if e1 != e2:
        raise Violation("symmetry", {"q1": qa, "q2": qb}, "(%s == %s) is %r but the reverse is %r" % (qast.show(qa), qast.show(qb), e1, e2))
    if (has_map(qa) or has_map(qb)) and e1:
        raise Violation("map-equal", {"q1": qa, "q2": qb}, "%s == %s although a map function is involved" % (qast.show(qa), qast.show(qb)))
    if not e1:
        return False
    try:
        h1, h2 = hash(a), hash(b)
    except Exception as e:
        raise Violation("hash-raises", {"q1": qa, "q2": qb}, "hash of equal queries raised %r" % (e,))
    if h1 != h2:
        raise Violation("hash", {"q1": qa, "q2": qb}, "%s == %s but their hashes differ" % (qast.show(qa), qast.show(qb)))
    pts = [(p, gen.to_point(p)) for p in universe.points_varying(tuple(sa) + tuple(sb))] + spread_points()
    for p, P in pts:
        ra, rb = bool(a(P)), bool(b(P))
        acc.ev()
        if ra != rb:
            raise Violation("behaviour", {"q1": qa, "q2": qb, "p": p}, "%s == %s but on %r they evaluate to %r and %r" % (qast.show(qa), qast.show(qb), p, ra, rb))
    return True


def check_commute(qa, a, qb, b, acc):
    if not (a.is_hashable() and b.is_hashable()):
        return False
    for op, name in ((lambda x, y: x & y, "and"), (lambda x, y: x | y, "or")):
        l, r = op(a, b), op(b, a)
        ql, qr = [name, qa, qb], [name, qb, qa]
        acc.ev()
        if not (safe_eq(l, r, ql, qr) and safe_eq(r, l, qr, ql)):
            raise Violation("commute", {"q1": ql, "q2": qr}, "%s != %s" % (qast.show(ql), qast.show(qr)))
        if hash(l) != hash(r):
            raise Violation("commute-hash", {"q1": ql, "q2": qr}, "hash(%s) != hash(%s)" % (qast.show(ql), qast.show(qr)))
    return True


def exprs_depth(corev, d):
    """[(q, slots)] of all expressions of depth <= d over the core."""
    cur = list(corev)
    allx = list(corev)
    for _ in range(d):
        nxt = [(["not", q], s) for q, s in cur]
        for (q1, s1), (q2, s2) in itertools.product(allx, allx):
            nxt.append((["and", q1, q2], s1 + s2))
            nxt.append((["or", q1, q2], s1 + s2))
        cur = nxt
        allx = allx + nxt
    return allx


def shards(tier):
    s = [{"kind": "leafpairs", "part": k, "of": 4} for k in range(4)]
    s += [{"kind": "corepairs", "part": k, "of": 10} for k in range(10)]
    s += [{"kind": "commute", "part": k, "of": 2, "deep": tier == "thorough"} for k in range(2)]
    s += [{"kind": "deeppairs", "part": k, "of": 8} for k in range(8)]
    s += [{"kind": "hyp", "n": 600 if tier == "quick" else 8000} for _ in range(4 if tier == "quick" else 12)]
    return s


def run_shard(spec, ctx):
    acc = ctx.acc
    if spec["kind"] == "leafpairs":
        vocab = universe.vocabulary()
        A = [qast.build(l) for l, _ in vocab]
        B = [qast.build(l) for l, _ in vocab]  # independently built second copies
        neq = 0
        for i, (la, sa) in enumerate(vocab):
            if i % spec["of"] != spec["part"]:
                continue
            for j, (lb, sb) in enumerate(vocab):
                if check_pair(la, A[i], sa, lb, B[j], sb, acc):
                    acc.nontrivial_enum += 1
                    acc.cls("equal_leaf_pairs")
                    if i != j:
                        acc.cls("equal_leaf_pairs_distinct_source")
                        acc.sample({"equal": [qast.show(la), qast.show(lb)]}, cap=2)
                else:
                    neq += 1
        acc.cls("unequal_leaf_pairs", neq)
        acc.extra = {"vocabulary": len(vocab)}
        return

    corev = confusable_core()
    if spec["kind"] == "corepairs":
        ex = exprs_depth(corev, 1)
        A = [qast.build(q) for q, _ in ex]
        B = [qast.build(q) for q, _ in ex]
        neq = 0
        for i, (qa, sa) in enumerate(ex):
            if i % spec["of"] != spec["part"]:
                continue
            for j, (qb, sb) in enumerate(ex):
                if check_pair(qa, A[i], sa, qb, B[j], sb, acc):
                    acc.nontrivial_enum += 1
                    acc.cls("equal_expr_pairs")
                    if qa != qb:
                        acc.cls("equal_expr_pairs_distinct_source")
                        acc.sample({"equal": [qast.show(qa), qast.show(qb)]}, cap=3, every=13)
                else:
                    neq += 1
        acc.cls("unequal_expr_pairs", neq)
        acc.extra = {"core_exprs": len(ex), "core_leaves": len(corev)}
        return

    if spec["kind"] == "deeppairs":
        # three leaves, two levels of connectives: 1 200 expressions, all 1.44 million ordered pairs
        small = [corev[4], corev[7], corev[6]]
        ex = exprs_depth(small, 2)
        A = [qast.build(q) for q, _ in ex]
        B = [qast.build(q) for q, _ in ex]
        pts = [(p, gen.to_point(p)) for p in universe.points_varying(("tag.a", "field.a", "tag.b"))]
        tt = {}
        neq = 0
        for i, (qa, sa) in enumerate(ex):
            if i % spec["of"] != spec["part"]:
                continue
            a = A[i]
            for j, (qb, sb) in enumerate(ex):
                b = B[j]
                e1 = safe_eq(a, b, qa, qb)
                acc.ev()
                if e1 != safe_eq(b, a, qb, qa):
                    raise Violation("symmetry", {"q1": qa, "q2": qb}, "== is not symmetric on %s, %s" % (qast.show(qa), qast.show(qb)))
                if not e1:
                    neq += 1
                    continue
                if hash(a) != hash(b):
                    raise Violation("hash", {"q1": qa, "q2": qb}, "%s == %s but their hashes differ" % (qast.show(qa), qast.show(qb)))
                for k in (("a", i), ("b", j)):
                    if k not in tt:
                        tt[k] = [bool((a if k[0] == "a" else b)(P)) for _, P in pts]
                acc.ev(len(pts))
                if tt[("a", i)] != tt[("b", j)]:
                    w = next(n for n in range(len(pts)) if tt[("a", i)][n] != tt[("b", j)][n])
                    raise Violation("behaviour", {"q1": qa, "q2": qb, "p": pts[w][0]}, "%s == %s but they differ on %r" % (qast.show(qa), qast.show(qb), pts[w][0]))
                acc.nontrivial_enum += 1
                acc.cls("equal_deep_pairs")
                if qa != qb:
                    acc.cls("equal_deep_pairs_distinct_source")
                    acc.sample({"equal": [qast.show(qa), qast.show(qb)]}, cap=2, every=31)
        acc.cls("unequal_deep_pairs", neq)
        acc.extra = {"deep_exprs": len(ex)}
        return

    if spec["kind"] == "commute":
        ex = exprs_depth(corev, 1)
        A = [qast.build(q) for q, _ in ex]
        n = 0
        for i, (qa, _) in enumerate(ex):
            if i % spec["of"] != spec["part"]:
                continue
            for j, (qb, _) in enumerate(ex):
                if spec["deep"] or (i < 60 or j < 60 or (i + j) % 7 == 0):
                    if check_commute(qa, A[i], qb, A[j], acc):
                        acc.nontrivial_enum += 1
                        n += 1
        acc.cls("commuted_pairs", n)
        acc.sample({"commuted": [qast.show(["and", ex[30][0], ex[700][0]]), qast.show(["and", ex[700][0], ex[30][0]])]}, cap=1)
        return

    # generated: expression + perturbed copy
    @st.composite
    def pairs(draw):
        q = draw(gen.queries(3))
        mode = draw(st.integers(0, 7))
        if mode == 7:
            # plant a right-hand side whose hash collides with a neighbour's (CPython: hash(-1) == hash(-2)) somewhere in q
            q = plant(draw, q, -1)
        q2 = perturb(draw, q, mode)
        return q, q2, mode

    def plant(draw, q, value):
        if q[0] == "leaf":
            return ["leaf", "field", [["key", "a"]], ["cmp", draw(st.sampled_from(["==", "!=", "<", ">="])), value]]
        if q[0] == "not":
            return ["not", plant(draw, q[1], value)]
        i = draw(st.integers(1, 2))
        return [q[0], plant(draw, q[1], value) if i == 1 else q[1], plant(draw, q[2], value) if i == 2 else q[2]]

    def perturb(draw, q, mode):
        if mode == 0:
            return q  # rebuilt unchanged: equal unless a map / noop is inside
        if q[0] == "leaf":
            _, attr, path, test = q
            t = list(test)
            if mode == 1 and t[0] in ("matches", "search"):
                t[2] = draw(st.sampled_from([f for f in gen.REFLAGS if f != t[2]]))
            elif mode == 2 and t[0] == "cmp":
                t[1] = draw(st.sampled_from([o for o in qast.OPS if o != t[1]]))
            elif mode == 3 and t[0] == "cmp" and attr == "field" and isinstance(t[2], (int, float)) and not isinstance(t[2], bool):
                t[2] = float(t[2]) if isinstance(t[2], int) else (int(t[2]) if t[2] == t[2] and abs(t[2]) != float("inf") and t[2] == int(t[2]) else t[2])
            elif mode == 3 and t[0] == "cmp" and attr == "time":
                t[2] = t[2].astimezone(draw(gen.offsets()))
            elif mode == 4 and t[0] in ("matches", "search"):
                t[0] = "search" if t[0] == "matches" else "matches"
            elif mode == 7 and t[0] == "cmp" and attr == "field" and t[2] == -1 and isinstance(t[2], int):
                t[2] = -2
            return ["leaf", attr, path, t]
        if q[0] == "not":
            return ["not", perturb(draw, q[1], mode)]
        if mode == 5 and draw(st.booleans()):
            return ["or" if q[0] == "and" else "and", q[1], q[2]]  # flip one connective
        if mode == 6 and q[1][0] == q[0]:
            return [q[0], q[1][1], [q[0], q[1][2], q[2]]]  # re-associate (x.y).z -> x.(y.z)
        if draw(st.booleans()):
            return [q[0], q[2], q[1]]  # swap operands
        return [q[0], perturb(draw, q[1], mode), perturb(draw, q[2], mode)]

    pool_pts = None

    def check(case):
        nonlocal pool_pts
        q, q2, mode = case
        a, b = qast.build(q), qast.build(q2)
        # pool keys differ from the universe's, so behaviour is compared on pool points built from the same strategies
        if pool_pts is None:
            pool_pts = []
            for t in gen.TIMES[:4]:
                for m in ("m1", "a,b"):
                    for tv in gen.TVALS[:5]:
                        for fv in gen.FVALS[:6] + [-1, -2]:
                            p = {"time": t, "measurement": m, "tags": {"a": tv, "t x": "x"} if tv != "" else {}, "fields": {"a": fv, "_t": 2} if fv != 2 else {}}
                            pool_pts.append((p, gen.to_point(p)))
        e1 = safe_eq(a, b, q, q2)
        e2 = safe_eq(b, a, q2, q)
        acc.ev()
        if e1 != e2:
            raise Violation("symmetry", {"q1": q, "q2": q2}, "(%s == %s) is %r but the reverse is %r" % (qast.show(q), qast.show(q2), e1, e2))
        if (has_map(q) or has_map(q2)) and e1:
            raise Violation("map-equal", {"q1": q, "q2": q2}, "%s == %s although a map function is involved" % (qast.show(q), qast.show(q2)))
        acc.cls("gen_mode%d_%s" % (mode, "equal" if e1 else "unequal"))
        if e1:
            if hash(a) != hash(b):
                raise Violation("hash", {"q1": q, "q2": q2}, "%s == %s but their hashes differ" % (qast.show(q), qast.show(q2)))
            for p, P in pool_pts:
                ra, rb = bool(a(P)), bool(b(P))
                acc.ev()
                if ra != rb:
                    raise Violation("behaviour", {"q1": q, "q2": q2, "p": p}, "%s == %s but on %r they evaluate to %r and %r" % (qast.show(q), qast.show(q2), p, ra, rb))
            acc.nt([q, q2])
            if q != q2:
                acc.sample({"equal": [qast.show(q), qast.show(q2)]}, cap=2)

    v = core.hyp_search(check, pairs(), ctx.seed, spec["n"])
    if v is not None:
        raise v


def replay(sub, case, ctx):
    q1, q2 = case["q1"], case["q2"]
    a, b = qast.build(q1), qast.build(q2)
    acc = ctx.acc
    if sub in ("commute", "commute-hash"):
        # q1 = [op, x, y], q2 = [op, y, x]
        x, y = qast.build(q1[1]), qast.build(q1[2])
        check_commute(q1[1], x, q1[2], y, acc)
        return
    slots = tuple(universe.SLOTS)  # replay compares on the whole universe spread and all single-slot variations
    e = check_pair(q1, a, (), q2, b, (), acc)
    if e:
        pts = [case["p"]] if "p" in case else []
        for s in slots:
            pts += list(universe.points_varying((s,)))
        for p in pts:
            P = gen.to_point(p)
            if bool(a(P)) != bool(b(P)):
                raise Violation("behaviour", {"q1": q1, "q2": q2, "p": p}, "%s == %s but they differ on %r" % (qast.show(q1), qast.show(q2), p))


def finish(merged, tier):
    return {"exhaustive": True, "exhaustive_part": "all ordered pairs of vocabulary leaves and of depth<=2 expressions over the 23-leaf confusable core; commutativity over depth<=1 operand pairs (%s)" % ("all" if tier == "thorough" else "all with a depth-0/low-index operand, every 7th of the rest")}
