"""C18 — sorted-list search helpers return the documented boundary positions.

Oracle: linear-scan definitions written from the statement (leftmost equal / rightmost below /
rightmost not-above / leftmost above / leftmost not-below, None when there is none).
Exhaustive core: all sorted lists of length 0-7 over a 5-value domain x 11 probes x 5 helpers.
Long lists: 0..N-1 with a run of 1-5 equal values at every position, for lengths around powers of two (size-dependent strategies).
Every generated list is probed again after being edited in place (same object, same length).
Generated part: Hypothesis lists of floats (+-inf, +-0.0, duplicates, up to 200 long; thorough: also
ints beyond 2**53 and strings) with probes taken from the list, one ulp beside it, or anywhere.
Thorough tier: crosshair (contract-directed input search with z3) runs the contracts of tfverif/contracts_c18.py as a second generator.
"""
import itertools
import math
import os

from hypothesis import strategies as st

from .. import core
from ..core import Violation

ID = "C18"
LEVEL = "exploration"
RULE = (
    "exhaustive: every sorted list (multiset) of length 0-7 over the domain {1,3,5,7,9} x every probe in 0..10 x the 5 helpers, "
    "compared with linear-scan definitions; long lists: every position of a run of 1/2/3/5 equal values in 0..N-1 for 14 lengths N from 31 to 257 (thorough: up to 2049); generated: Hypothesis sorted float/int/str lists up to 200 long with probes from the "
    "list, +-1 ulp beside an element, or arbitrary. Non-trivial = the probe occurs more than once in the list, or lies at/below the "
    "first or at/above the last element (boundary answers, None answers); distinct by (helper, list, probe)."
)
ASSUMPTIONS = ["lists are sorted and contain mutually comparable values without NaN (the callers' precondition)"]

HELPERS = ("find_eq", "find_lt", "find_le", "find_gt", "find_ge")


def ref(name, lst, x):
    idx = range(len(lst))
    if name == "find_eq":
        c = [i for i in idx if lst[i] == x]
        return min(c) if c else None
    if name == "find_lt":
        c = [i for i in idx if lst[i] < x]
        return max(c) if c else None
    if name == "find_le":
        c = [i for i in idx if lst[i] <= x]
        return max(c) if c else None
    if name == "find_gt":
        c = [i for i in idx if lst[i] > x]
        return min(c) if c else None
    if name == "find_ge":
        c = [i for i in idx if lst[i] >= x]
        return min(c) if c else None
    raise KeyError(name)


def helpers():
    import tinyflux.utils as u

    return {n: getattr(u, n) for n in HELPERS}


def check_one(fns, name, lst, x):
    exp = ref(name, lst, x)
    try:
        got = fns[name](lst, x)
    except Exception as e:  # a sorted list and a comparable probe never justify an exception
        raise Violation("helper", {"helper": name, "list": lst, "x": x}, "%s raised %r, expected %r" % (name, e, exp))
    if got != exp or (got is not None and type(got) is not int):
        raise Violation("helper", {"helper": name, "list": lst, "x": x}, "%s(%r, %r) = %r, linear-scan definition gives %r" % (name, lst, x, got, exp))


def nontrivial(lst, x):
    return (not lst) or lst.count(x) > 1 or x <= lst[0] or x >= lst[-1]


def shards(tier):
    n = 15
    per = 400 if tier == "quick" else 6000
    s = [{"kind": "exhaustive"}] + [{"kind": "hyp", "n": per, "wide": tier == "thorough" and i % 3 == 0} for i in range(n - 1)]
    lengths = [31, 32, 33, 64, 65, 100, 127, 128, 129, 130, 200, 255, 256, 257] + ([300, 511, 512, 513, 1000, 1024, 1025, 2049] if tier == "thorough" else [])
    s += [{"kind": "runs", "lengths": [N]} for N in lengths]
    if tier == "thorough":
        s.append({"kind": "crosshair"})  # contract-directed input search with z3 as a second generator (integer lists)
    return s


def run_crosshair(ctx):
    """crosshair (tooling venv, python3-vt) searches for inputs violating the contracts in tfverif/contracts_c18.py."""
    import ast
    import re
    import shutil
    import subprocess

    py = shutil.which("python3-vt") or "/opt/veriftools/pyvenv/bin/python"
    if not os.path.exists(py):
        return None, None
    probe = subprocess.run([py, "-c", "import crosshair"], capture_output=True)
    if probe.returncode != 0:
        return None, None
    src = os.path.join(core.VERIF, "tfverif", "contracts_c18.py")
    r = subprocess.run([py, "-m", "crosshair", "check", "--analysis_kind=asserts", "--per_condition_timeout=15", src], capture_output=True, text=True, timeout=900,
                       env=dict(os.environ, PYTHONPATH=core.repo_root()))
    out = (r.stdout or "") + (r.stderr or "")
    m = re.search(r"when calling check_(find_\w+)\((.*)\)\s*$", out, re.M)
    if m:
        try:
            lst, x = ast.literal_eval("(" + m.group(2) + ")")
            return 5, {"helper": m.group(1), "list": list(lst), "x": x}
        except Exception:
            raise core.HarnessError("crosshair reported a counterexample that could not be parsed: %s" % out[-300:])
    if r.returncode not in (0,):
        raise core.HarnessError("crosshair exited %d: %s" % (r.returncode, out[-300:]))
    return 5, None


def run_shard(spec, ctx):
    fns = helpers()
    acc = ctx.acc
    if spec["kind"] == "crosshair":
        n, cex = run_crosshair(ctx)
        if n is None:
            acc.cls("crosshair_unavailable")
            return
        acc.cls("crosshair_contracts_checked", n)
        if cex is not None:
            check_one(fns, cex["helper"], cex["list"], cex["x"])  # re-confirm with the check's own oracle -> Violation
            raise core.HarnessError("crosshair counterexample %r did not reproduce" % (cex,))
        return
    if spec["kind"] == "runs":
        # long lists (implementations may switch strategy with the size): 0..N-1 with one run of equal values at every position,
        # probed at the run's value and half a step beside it
        n_lists = 0
        for N in spec["lengths"]:
            for start in range(N):
                for r in (1, 2, 3, 5):
                    if start + r > N:
                        continue
                    lst = list(range(start)) + [start] * r + list(range(start + 1, N - r + 1))
                    n_lists += 1
                    for x in (start, start - 0.5, start + 0.5):
                        for name in HELPERS:
                            check_one(fns, name, lst, x)
                            acc.ev()
                            if r > 1 and x == start:
                                acc.nt([name, N, start, r])
            acc.cls("run_sweep_len_%d" % N)
        acc.cls("run_sweep_lists", n_lists)
        return
    if spec["kind"] == "exhaustive":
        dom = (1, 3, 5, 7, 9)
        n_lists = 0
        for L in range(0, 8):
            for combo in itertools.combinations_with_replacement(dom, L):
                lst = list(combo)
                n_lists += 1
                for x in range(0, 11):
                    nt = nontrivial(lst, x)
                    for name in HELPERS:
                        check_one(fns, name, lst, x)
                        acc.ev()
                        if nt:
                            acc.nontrivial_enum += 1
                    if n_lists % 131 == 0 and x == 5:
                        acc.sample({"list": lst, "x": x, "answers": {n: ref(n, lst, x) for n in HELPERS}})
        acc.cls("exhaustive_lists", n_lists)
        acc.extra = {"exhaustive_lists": n_lists, "exhaustive_complete": True}
        return

    floats = st.floats(allow_nan=False) | st.sampled_from([0.0, -0.0, math.inf, -math.inf, 1.0, 5e-324, -5e-324, 1e308])
    # long lists made of a few runs of equal values (duplicates are what the leftmost / rightmost clauses are about)
    runs = st.lists(st.tuples(st.sampled_from([-1.5, 0.0, 1.0, 2.0, 2.0000000000000004, 3.0, 1e9]), st.sampled_from([1, 2, 3, 7, 8, 9, 31, 33, 63, 64, 65, 127, 128, 129, 300])), min_size=1, max_size=5).map(
        lambda rs: [v for v, k in rs for _ in range(k)]
    )
    if spec.get("wide"):
        elems = st.one_of(floats, st.integers(), st.integers(min_value=2**53 - 2, max_value=2**53 + 2))
        lists = st.one_of(st.lists(elems, max_size=200), st.lists(st.text(max_size=3), max_size=50))
    else:
        lists = st.lists(floats, max_size=200) | st.lists(st.sampled_from([0.0, -0.0, 1.0, 2.0, 2.0000000000000004]), max_size=12) | runs

    @st.composite
    def cases(draw):
        lst = sorted(draw(lists))
        if lst and isinstance(lst[0], str):
            x = draw(st.sampled_from(lst) | st.text(max_size=3))
            return lst, x
        if lst:
            mode = draw(st.integers(0, 3))
            e = draw(st.sampled_from(lst))
            if mode == 0:
                x = e
            elif mode == 1 and isinstance(e, float) and math.isfinite(e):
                x = math.nextafter(e, math.inf)
            elif mode == 2 and isinstance(e, float) and math.isfinite(e):
                x = math.nextafter(e, -math.inf)
            else:
                x = draw(floats)
        else:
            x = draw(floats)
        return lst, x

    def check(case):
        lst, x = case
        nt = nontrivial(lst, x)
        for name in HELPERS:
            check_one(fns, name, lst, x)
            acc.ev()
            if nt:
                acc.nt([name, lst, x])
        acc.cls("dup_probe" if lst.count(x) > 1 else "probe_present" if x in lst else "probe_absent")
        # the helpers are functions of the list's CONTENTS: the same list object, edited in place without a change of length
        # (an index does that when it replaces or renumbers entries), is probed again with the same value
        if len(lst) >= 2 and not isinstance(lst[0], str):
            orig = list(lst)
            try:
                i = (len(lst) * 7 + lst.count(x)) % len(lst)
                lst[i] = lst[i - 1] if i > 0 else lst[1]  # copying a neighbour keeps the list sorted
                for name in HELPERS:
                    check_one(fns, name, lst, x)
                    acc.ev()
                tail = lst.pop()
                lst.append(tail if x != tail else lst[-1] if lst else tail)
                for name in HELPERS:
                    check_one(fns, name, lst, x)
                    acc.ev()
            except Violation as v:
                v.case = dict(v.case, before=orig)  # the replay probes `before` first and then edits that same object
                raise
            acc.cls("reprobed_after_in_place_edit")
        acc.cls("len>=128" if len(lst) >= 128 else "len>=8" if len(lst) >= 8 else "len<8")
        if len(lst) <= 6:
            acc.sample({"list": lst, "x": x, "answers": {n: ref(n, lst, x) for n in HELPERS}})

    v = core.hyp_search(check, cases(), ctx.seed, spec["n"])
    if v is not None:
        raise v


def replay(sub, case, ctx):
    fns = helpers()
    if case.get("before") is not None and len(case["before"]) == len(case["list"]):
        lst = list(case["before"])
        for name in HELPERS:
            check_one(fns, name, lst, case["x"])
        lst[:] = case["list"]  # in place: same object, same length
        for name in HELPERS:
            check_one(fns, name, lst, case["x"])
        return
    check_one(fns, case["helper"], case["list"], case["x"])


def finish(merged, tier):
    ex = [e for e in merged["extra"] if e.get("exhaustive_complete")]
    return {"exhaustive": bool(ex), "exhaustive_part": "all 792 sorted lists of length 0-7 over 5 values x 11 probes x 5 helpers" if ex else None}
