"""C05 — every valid Point survives serialization to CSV and back unchanged.

Round-trip oracle on three routes: (a) the codec itself (Point -> row of strings -> Point), (b) through a real CSV file
(insert, close, reopen with a fresh TinyFlux, all()) under several csv dialects and both key-prefix styles, cross-checked by the
independent decoder csvref, (c) thorough tier: a coverage-guided atheris campaign over byte-decoded points with the same oracle in the target.
Equality is strict where the statement is: tags stay tags and fields stay fields, float inputs come back with identical IEEE-754 bits
(sign of zero, subnormals, infinities), int inputs come back ==, the time is the same instant in UTC.  Injectivity: for confusable pairs
(None vs "_none", "" vs "_none", key k vs prefixed key, numeric strings ...) the serialized rows of unequal points must differ.
"""
import csv
import os
import struct
import shutil

from hypothesis import strategies as st

from .. import core, csvref, gen, model, wide
from ..core import Violation

ID = "C05"
LEVEL = "exploration"
RULE = (
    "Hypothesis-generated valid points over a wide domain (arbitrary Unicode mixed 50/50 with adversarial strings: reserved words and prefixes, CSV metacharacters, CR/LF/NUL, numeric look-alikes; "
    "all float64 but NaN incl. +-0.0, subnormals, infinities; unbounded ints; microsecond UTC times 1700-2240) x both key-prefix styles, on route (a) codec row round trip, "
    "(b) file round trip under 8 csv dialects with reopen, also decoded by an independent reader, and confusable pairs for injectivity. Non-trivial = point with >= 1 tag and >= 1 field and at least "
    "one hard string (CSV metacharacter, reserved word/prefix, non-ASCII) or a non-finite / subnormal / > 2**53 number; distinct by digest of (point, prefix style, route)."
)
ASSUMPTIONS = [
    "NaN field values are outside the statement's list of special values and excluded (NaN != NaN makes equality meaningless)",
    "a (dialect, row) pair that Python's own csv module cannot round-trip is outside the domain: discarded and counted (csv_self_check_discards)",
    "known findings (excluded by construction, counted): tag value exactly '_none', empty measurement name, ints beyond +-2**53",
]

DIALECTS = {
    "default": {},
    "semicolon": {"delimiter": ";"},
    "tab": {"delimiter": "\t"},
    "pipe_singlequote": {"delimiter": "|", "quotechar": "'"},
    "quote_all": {"quoting": csv.QUOTE_ALL},
    "quote_nonnumeric": {"quoting": csv.QUOTE_NONNUMERIC},
    "escapechar": {"doublequote": False, "escapechar": "\\"},
    "lf_terminator": {"lineterminator": "\n"},
}
HARD_CHARS = set(',"\r\n\0;\t|\'\\')
RESERVED = ("_none", "_tag_", "t_", "_field_", "f_", "_default")


def is_hard(s):
    return isinstance(s, str) and (bool(HARD_CHARS & set(s)) or any(s.startswith(r) for r in RESERVED) or s in ("t", "f", "_", "") or any(ord(c) > 127 for c in s))


def hard_num(v):
    return isinstance(v, (int, float)) and not isinstance(v, bool) and (v != v or abs(v) == float("inf") or (isinstance(v, float) and v != 0 and abs(v) < 2.3e-308) or abs(v) > 2**53)


def nontrivial(p):
    strs = [p["measurement"]] + list(p["tags"]) + list(p["tags"].values()) + list(p["fields"])
    return bool(p["tags"]) and bool(p["fields"]) and (any(is_hard(s) for s in strs) or any(hard_num(v) for v in p["fields"].values()))


def bits(x):
    return struct.pack(">d", x)


def compare(orig, got, case, route):
    """orig, got: model dicts. Strict comparison per the statement."""
    def bad(msg):
        raise Violation("roundtrip", case, "%s: %s; original %r, read back %r" % (route, msg, orig, got))

    if got["time"] != orig["time"] or got["time"].utcoffset() is None or got["time"].utcoffset().total_seconds() != 0:
        bad("time differs or is not UTC")
    if got["measurement"] != orig["measurement"] or type(got["measurement"]) is not str:
        bad("measurement differs")
    if got["tags"] != orig["tags"]:
        bad("tags differ (tags must stay tags)")
    if set(got["fields"]) != set(orig["fields"]):
        bad("field keys differ (fields must stay fields)")
    for k, v in orig["fields"].items():
        g = got["fields"][k]
        if v is None:
            if g is not None:
                bad("field %r: None came back as %r" % (k, g))
        elif isinstance(v, float):
            if not isinstance(g, (int, float)) or isinstance(g, bool) or bits(float(g)) != bits(v):
                bad("field %r: float %r came back as %r (IEEE bits differ)" % (k, v, g))
        else:
            if isinstance(g, bool) or not isinstance(g, (int, float)) or g != v:
                bad("field %r: int %r came back as %r" % (k, v, g))


def steer(p, known, acc):
    """Exclude the listed known-finding classes by construction (and count what was steered)."""
    p = {"time": p["time"], "measurement": p["measurement"], "tags": dict(p["tags"]), "fields": dict(p["fields"])}
    if "tag-value-_none" in known:
        for k, v in p["tags"].items():
            if v == "_none":
                p["tags"][k] = "_none_"
                acc.excluded["tag-value-_none"] += 1
    if "measurement-empty" in known and p["measurement"] == "":
        p["measurement"] = "m"
        acc.excluded["measurement-empty"] += 1
    if "int-beyond-2^53" in known:
        for k, v in p["fields"].items():
            if isinstance(v, int) and not isinstance(v, bool) and abs(v) > 2**53:
                p["fields"][k] = v % (2**53)
                acc.excluded["int-beyond-2^53"] += 1
    return p


def codec_roundtrip(p, compact, case):
    from tinyflux import Point

    P = Point(time=p["time"], measurement=p["measurement"], tags=dict(p["tags"]), fields=dict(p["fields"]))
    try:
        row = P._serialize_to_list(compact_key_prefixes=compact)
    except Exception as e:
        raise Violation("roundtrip", case, "codec: serializing %r raised %r" % (p, e))
    row = [str(x) for x in row]
    try:
        back = Point()._deserialize_from_list(list(row))
    except Exception as e:
        raise Violation("roundtrip", case, "codec: deserializing row %r of %r raised %r" % (row, p, e))
    compare(p, model.from_point(back), case, "codec")
    # the independent decoder must read the same row the same way (guards the reference itself)
    try:
        ref = csvref.decode_row(row)
    except Exception as e:
        raise Violation("roundtrip", case, "independent reader cannot decode row %r of %r: %r" % (row, p, e))
    compare(p, ref, case, "independent reader")
    return row


def file_roundtrip(points, compacts, dialect_name, ctx, case):
    from tinyflux import TinyFlux, TagQuery

    d = ctx.fresh_dir()
    try:
        path = os.path.join(d, "db.csv")
        kw = DIALECTS[dialect_name]
        db = TinyFlux(path, **kw)
        try:
            if len(points) >= 2 and len(points) % 2 == 0 and len(set(compacts)) == 1:
                # written in one insert_multiple call fed by a generator that re-fills and yields one Point object again and again:
                # every row must hold what the object held when it was yielded
                def recycled():
                    one = None
                    for p in points:
                        f = gen.to_point(p)
                        if one is None:
                            one = f
                        else:
                            one.time, one.measurement = f.time, f.measurement
                            one.tags.clear()
                            one.tags.update(f.tags)
                            one.fields.clear()
                            one.fields.update(f.fields)
                        yield one

                try:
                    db.insert_multiple(recycled(), compact_key_prefixes=compacts[0])
                except Exception as e:
                    raise Violation("roundtrip", case, "file/%s: insert_multiple of %d points raised %r" % (dialect_name, len(points), e))
            else:
                for p, c in zip(points, compacts):
                    try:
                        db.insert(gen.to_point(p), compact_key_prefixes=c)
                    except Exception as e:
                        raise Violation("roundtrip", case, "file/%s: insert of %r raised %r" % (dialect_name, p, e))
            if case.get("rewrite"):
                # a rewrite of the file (remove of a sentinel point) must not disturb the stored points either,
                # neither for the live instance nor for a fresh one
                from tinyflux import Point

                sentinel = "sentinel-%d" % len(points)
                db.insert(Point(time=points[-1]["time"], measurement="zz", tags={"zz_sentinel": sentinel}))
                try:
                    n = db.remove(TagQuery()["zz_sentinel"] == sentinel)
                except Exception as e:
                    raise Violation("roundtrip", case, "file/%s: removing a sentinel point (a rewrite of the file) raised %r" % (dialect_name, e))
                if n != 1:
                    raise Violation("roundtrip", case, "file/%s: sentinel removal returned %r" % (dialect_name, n))
                try:
                    live = [model.from_point(x) for x in db.all(sorted=False)]
                except Exception as e:
                    raise Violation("roundtrip", case, "file/%s: after a rewrite of the file the live instance cannot read it back: %r" % (dialect_name, e))
                if len(live) != len(points):
                    raise Violation("roundtrip", case, "file/%s: after a rewrite the live instance holds %d points, expected %d" % (dialect_name, len(live), len(points)))
                for p, g in zip(points, live):
                    compare(p, g, case, "file/%s/live instance after rewrite" % dialect_name)
        finally:
            db.close()
        try:
            db2 = TinyFlux(path, access_mode="r", **kw)
        except Exception as e:
            raise Violation("roundtrip", case, "file/%s: reopening the file raised %r" % (dialect_name, e))
        try:
            try:
                first = db2.all(sorted=False)
                got = [model.from_point(x) for x in first]
                # what a read hands back belongs to the caller: scribbling on it must not show up in the next read of the same file
                for P in first:
                    P.tags["zz_scribble"] = "1"
                    P.fields.clear()
                again = [model.from_point(x) for x in db2.all(sorted=False)]
            except Exception as e:
                raise Violation("roundtrip", case, "file/%s: reading back raised %r" % (dialect_name, e))
            if again != got:
                raise Violation("roundtrip", case, "file/%s: a second read of the unchanged file returns something else after the caller modified the points returned by the first read" % dialect_name)
        finally:
            db2.close()
        if len(got) != len(points):
            raise Violation("roundtrip", case, "file/%s: %d points written, %d read back" % (dialect_name, len(points), len(got)))
        for p, g in zip(points, got):
            compare(p, g, case, "file/" + dialect_name)
        with open(path, "rb") as f:
            data = f.read()
        try:
            ref = csvref.decode(data, None, kw)
        except Exception as e:
            raise Violation("roundtrip", case, "file/%s: independent reader failed on the file: %r" % (dialect_name, e))
        if len(ref) != len(points):
            raise Violation("roundtrip", case, "file/%s: independent reader sees %d rows for %d points" % (dialect_name, len(ref), len(points)))
        for p, g in zip(points, ref):
            compare(p, g, case, "file/%s/independent reader" % dialect_name)
    finally:
        shutil.rmtree(d, ignore_errors=True)


def row_strings(p, compact):
    tp, fp = ("t_", "f_") if compact else ("_tag_", "_field_")
    out = [p["time"].replace(tzinfo=None).isoformat(), p["measurement"]]
    for k, v in p["tags"].items():
        out += [tp + k, "_none" if v is None else v]
    for k in p["fields"]:
        out += [fp + k, "0"]
    return out


def confusables(p, draw):
    """A point differing from p in one slot by a confusable value."""
    q = {"time": p["time"], "measurement": p["measurement"], "tags": dict(p["tags"]), "fields": dict(p["fields"])}
    mode = draw(st.integers(0, 6))
    if mode == 0 and q["tags"]:
        k = draw(st.sampled_from(sorted(q["tags"])))
        q["tags"][k] = "_none" if q["tags"][k] is None else None
    elif mode == 1:
        q["measurement"] = {"": "_none", "_none": ""}.get(q["measurement"], q["measurement"] + " ")
    elif mode == 2 and q["tags"]:
        k = draw(st.sampled_from(sorted(q["tags"])))
        items = [(draw(st.sampled_from(["_tag_", "t_", "_field_", "f_", " "])) + kk if kk == k else kk, vv) for kk, vv in q["tags"].items()]
        q["tags"] = dict(items)
    elif mode == 3 and q["fields"]:
        k = draw(st.sampled_from(sorted(q["fields"])))
        items = [(draw(st.sampled_from(["_field_", "f_", "_tag_", "t_"])) + kk if kk == k else kk, vv) for kk, vv in q["fields"].items()]
        q["fields"] = dict(items)
    elif mode == 4 and q["tags"] and not q["fields"]:
        k = sorted(q["tags"])[0]
        v = q["tags"].pop(k)
        q["fields"] = {k: None if v is None else 1}
    elif mode == 5 and q["fields"]:
        k = draw(st.sampled_from(sorted(q["fields"])))
        v = q["fields"][k]
        q["fields"][k] = 0 if v is None else None if v == 0 else (-v if v in (0.0,) else v + 1 if abs(v) < 2**52 else None)
    else:
        q["tags"] = dict(list(q["tags"].items()) + [("", draw(st.sampled_from([None, "", "_none_"])))]) if "" not in q["tags"] else {k: v for k, v in q["tags"].items() if k != ""}
    return q


def shards(tier):
    quick = tier == "quick"
    base = [{"kind": "codec" if i % 2 == 0 else "file", "n": (4000 if quick else 60000) if i % 2 == 0 else (150 if quick else 3000)} for i in range(16)]
    if quick:
        return base
    return [{"kind": "fuzz", "runs": 250000} for _ in range(4)] + base


def run_shard(spec, ctx):
    acc = ctx.acc
    known = ctx.known
    have_codec = True
    try:
        from tinyflux import Point

        have_codec = hasattr(Point, "_serialize_to_list") and hasattr(Point, "_deserialize_from_list")
    except Exception:
        have_codec = False
    if spec["kind"] == "fuzz":
        if not have_codec:
            return
        stats, v = core.run_fuzz("c05", ctx, spec["runs"])
        if stats is None:
            acc.cls("atheris_unavailable")
            return
        acc.ev(stats.get("execs", 0))
        acc.cls("atheris_execs", stats.get("execs", 0))
        acc.nontrivial_enum += stats.get("distinct_nontrivial", 0)
        for k, n_ in (stats.get("excluded") or {}).items():
            acc.excluded[k] += n_
        if v is not None:
            raise v
        return
    if spec["kind"] == "codec" and have_codec:

        @st.composite
        def cases(draw):
            p = draw(wide.wide_points())
            mode = draw(st.integers(0, 3))
            return p, draw(st.booleans()), (confusables(p, draw) if mode == 0 else None)

        def check(c):
            p0, compact, q0 = c
            p = steer(p0, known, acc)
            case = {"point": p, "compact": compact, "route": "codec"}
            row = codec_roundtrip(p, compact, case)
            acc.ev()
            if nontrivial(p):
                acc.nt([p, compact, "codec"])
                acc.sample({"point": p, "compact": compact, "row": row}, cap=2, every=211)
            acc.cls("codec_compact" if compact else "codec_default")
            if q0 is not None:
                q = steer(q0, known, acc)
                case2 = {"point": q, "compact": compact, "route": "codec"}
                row2 = codec_roundtrip(q, compact, case2)
                acc.ev()
                from tinyflux import Point

                same = gen.to_point(p) == gen.to_point(q)
                if not same and row == row2:
                    raise Violation("injectivity", {"point": p, "point2": q, "compact": compact, "route": "codec"}, "distinct points serialize to the same row %r: %r and %r" % (row, p, q))
                acc.cls("confusable_pairs")
                if not same:
                    acc.nt([p, q, compact, "pair"])

        v = core.hyp_search(check, cases(), ctx.seed, spec["n"])
        if v is not None:
            raise v
        return

    # file route (also the fallback when the private codec names are gone)
    @st.composite
    def fcases(draw):
        pts = draw(st.lists(wide.wide_points(), min_size=1, max_size=5))
        if draw(st.integers(0, 9)) == 0:
            pts[0]["tags"]["big"] = draw(wide.long_text())
        if draw(st.integers(0, 19)) == 0:
            # a file of several hundred KiB whose rows are multi-line values (readers that work in blocks or split lines themselves)
            unit = draw(st.sampled_from(["line\n", "l\r\n", "a,b\n\"q\"\n", "x\u2028\n"]))
            n = draw(st.integers(30, 70))
            base = pts[0]
            pts = [dict(base, tags=dict(base["tags"], ml=unit * (9000 // len(unit)), i=str(i))) for i in range(n)]
        return pts, [draw(st.booleans()) for _ in pts], draw(st.sampled_from(sorted(DIALECTS))), draw(st.booleans())

    def fcheck(c):
        pts0, compacts, dname, rewrite = c
        pts = [steer(p, known, acc) for p in pts0]
        # harness self-check: rows Python's csv cannot round-trip under this dialect are outside the domain
        if not all(csvref.csv_roundtrips(row_strings(p, cp), DIALECTS[dname]) for p, cp in zip(pts, compacts)):
            acc.cls("csv_self_check_discards")
            return
        case = {"points": pts, "compacts": compacts, "dialect": dname, "route": "file", "rewrite": rewrite}
        file_roundtrip(pts, compacts, dname, ctx, case)
        acc.ev(len(pts))
        acc.cls("file_dialect_" + dname)
        acc.cls("file_with_rewrite" if rewrite else "file_plain")
        for p, cp in zip(pts, compacts):
            if nontrivial(p):
                acc.nt([p, cp, "file", dname])
        if any(nontrivial(p) for p in pts):
            acc.sample({"points": pts[:2], "compacts": compacts[:2], "dialect": dname}, cap=1, every=101)

    v = core.hyp_search(fcheck, fcases(), ctx.seed, spec["n"])
    if v is not None:
        raise v


def replay(sub, case, ctx):
    if case.get("route") == "file":
        file_roundtrip(case["points"], case["compacts"], case["dialect"], ctx, case)
        return
    row = codec_roundtrip(case["point"], case["compact"], case)
    if "point2" in case:
        row2 = codec_roundtrip(case["point2"], case["compact"], case)
        if row == row2 and gen.to_point(case["point"]) != gen.to_point(case["point2"]):
            raise Violation("injectivity", case, "distinct points serialize to the same row %r" % (row,))
