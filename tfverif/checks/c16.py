"""C16 — insert is append-only and its I/O cost does not depend on database size.

The I/O layer records every call tinyflux.storages makes while an insert runs.  For each generated case the same sequence of inserts is run on a
database pre-populated with n rows (n log-uniform up to 2 000 quick / 50 000 thorough, file written by an independent CSV writer) and on an empty
twin.  Oracle: (1) the on-disk bytes before the insert are a byte-for-byte prefix of the bytes after it; (2) during the insert there is no read,
readline or iteration on any handle, no open, no temporary file, no copy / replace / rename / remove; (3) the sequence of I/O steps of each insert
is identical on the big database and on the empty twin (constant, not merely bounded), and the bytes appended are exactly the encoded rows.
Reads that stop early (get / contains hitting the first row of a multi-buffer file) are interleaved so that the file position is anywhere.
"""
import csv
import os
import shutil

from hypothesis import strategies as st

from .. import core, csvref, gen, iolayer, model
from ..core import Violation

ID = "C16"
LEVEL = "exploration"
RULE = (
    "Hypothesis-generated cases: database size n (0, 1, or log-uniform up to the tier's bound), auto_index on/off, flush_on_insert on/off (off: byte oracle on the whole file after close), then 3-10 steps drawn from insert (single, through the database or a measurement handle), failing inserts (unencodable point), rewrites in between (an update growing / a removal shrinking the file), insert_multiple (1-4 points), in-order or "
    "out-of-order times, compact or default prefixes, interleaved with early-stopping reads (get/contains matching row 0), counts, len, reindex and close+reopen, occasionally one sized batch of 1000-1100 points, default or named 'unix' csv dialect; each insert is executed on the big database and on an empty twin "
    "under the I/O recorder. Non-trivial = an insert that directly follows a read which stopped mid-file on a database of >= 100 rows, or an out-of-order insert on a database of >= 100 rows; distinct by (n, step list)."
)
ASSUMPTIONS = ["I/O is observed at the level of the calls tinyflux.storages makes on its file objects and on os/shutil (audit hook reports calls that bypass the proxies)"]

FORBIDDEN = ("read", "readline", "next", "mktemp", "replace", "rename", "remove", "move", "os.truncate")


def write_rows(path, n, dialect=None):
    """Pre-populate with an independent writer: n rows in the documented layout, times increasing by one second."""
    from datetime import timedelta

    t0 = gen.T0 - timedelta(days=365)
    with open(path, "w", newline="", encoding="utf-8") as f:
        w = csv.writer(f, **({"dialect": dialect} if dialect else {}))
        for i in range(n):
            w.writerow([(t0 + timedelta(seconds=i)).replace(tzinfo=None).isoformat(), "m1", "_tag_i", str(i), "_tag_pad", "p" * 40, "_field_v", str(float(i))])


@st.composite
def cases(draw, nmax):
    import math

    # (12 000 rows are a file of more than 1 MiB: size thresholds of lazily initialised structures)
    n = draw(st.one_of(st.sampled_from([0, 1, 100, 300, 0, 1, 100, 300, 0, 1, 100, 300, 12000]), st.floats(0, math.log(nmax)).map(lambda x: int(math.exp(x)))))
    steps = []
    for _ in range(draw(st.integers(3, 10))):
        k = draw(st.sampled_from(["insert", "insert", "insert", "insert_multiple", "insert_multiple", "early_get", "early_get", "early_contains", "early_contains", "count", "count", "len", "len", "reindex", "reindex", "insert_ooo", "insert_ooo", "reopen", "reopen", "insert_bulk"]))
        if k in ("insert", "insert_ooo"):
            if draw(st.integers(0, 3)) == 0:
                k = {"insert": "insert_h", "insert_ooo": "insert_ooo_h"}[k]  # through a measurement handle
            steps.append([k, draw(gen.points()), draw(st.booleans())])
            r = draw(st.integers(0, 11))
            if r in (0, 1):
                # an update / removal in between rewrites the file: later inserts - failing ones too - start from the new file
                steps.append(["rewrite_grow" if r == 0 else "rewrite_shrink"])
                if draw(st.booleans()):
                    steps.append(["insert_fail"])
            elif r == 2:
                steps.append(["insert_fail"])  # an insert that cannot be written must leave the bytes alone as well
        elif k == "insert_multiple":
            steps.append([k, draw(st.lists(gen.points(), min_size=1, max_size=4)), draw(st.booleans()), draw(st.booleans())])
        elif k == "insert_bulk":
            # one large, sized batch (size-dependent fast paths switch on at round numbers)
            steps.append([k, draw(gen.points()), draw(st.sampled_from([1000, 1000, 1024, 1100])), draw(st.booleans())])
        else:
            steps.append([k])
    if n >= 10000 or draw(st.integers(0, 5)) == 0:
        steps.insert(0, ["reopen"])  # the first insert after (re)opening comes before any read
        steps.insert(1, ["insert", draw(gen.points()), draw(st.booleans())])
    return {"n": n, "auto_index": draw(st.booleans()), "steps": steps, "flush": draw(st.sampled_from([True, True, False])), "dialect": draw(st.sampled_from([None, None, None, "unix"]))}


def run_case(case, ctx, acc):
    from datetime import timedelta

    from tinyflux import TagQuery, TinyFlux

    d = ctx.fresh_dir()
    info = {"nontrivial": False}
    try:
        paths = {"big": os.path.join(d, "big.csv"), "twin": os.path.join(d, "twin.csv")}
        dialect = case.get("dialect")
        dkw = {"dialect": dialect} if dialect else {}
        write_rows(paths["big"], case["n"], dialect)
        write_rows(paths["twin"], 0, dialect)
        dbs, worlds = {}, {}
        for name in ("big", "twin"):
            worlds[name] = iolayer.World(paths[name], mode="record")
        sigs = {}
        for name in ("big", "twin"):
            w = worlds[name]
            with iolayer.installed(w):
                flush = case.get("flush", True)
                db = TinyFlux(paths[name], auto_index=case["auto_index"], flush_on_insert=flush, **dkw)
                inserted = []
                initial = w.disk()
                try:
                    latest = gen.T0 + timedelta(days=500)
                    early = False
                    for si, st_ in enumerate(case["steps"]):
                        k = st_[0]
                        via_handle = k.endswith("_h")
                        if via_handle:
                            k = k[:-2]
                        if k == "insert_fail":
                            from tinyflux import Point

                            before = w.disk()
                            e0 = len(w.events)
                            try:
                                db.insert(Point(time=latest + timedelta(seconds=1), measurement="m1", tags={"i": "bad\ud800"}, fields={"v": 1.0}))
                                raise Violation("insert-raised", case, "[%s n=%d] step %d: a point that cannot be encoded was accepted" % (name, case["n"], si))
                            except Violation:
                                raise
                            except Exception:
                                pass
                            if flush and w.disk() != before:
                                raise Violation("not-append-only", case, "[%s n=%d] step %d: an insert that raised changed the file (%d -> %d bytes)" % (name, case["n"], si, len(before), len(w.disk())))
                            acc.ev()
                            acc.cls("failed_insert_after_rewrite" if info.get("_rewritten") else "failed_insert")
                            early = False
                            continue
                        if k in ("rewrite_grow", "rewrite_shrink"):
                            if not flush:
                                continue  # rows may sit in the write buffer: there is no byte-exact "file after the rewrite" to restart from
                            if k == "rewrite_grow":
                                db.update(TagQuery().i == "0", tags={"pad": "q" * 300})
                            else:
                                db.remove(TagQuery().i == "1")
                            # whatever was buffered has been written by now; the append-only oracle restarts from the rewritten file
                            initial, inserted = w.disk(), []
                            info["_rewritten"] = True
                            early = False
                            continue
                        if k in ("insert", "insert_ooo", "insert_multiple", "insert_bulk"):
                            if k == "insert_bulk":
                                pts = [dict(st_[1], tags=dict(st_[1]["tags"], j=str(j))) for j in range(st_[2])]
                            else:
                                pts = [st_[1]] if k != "insert_multiple" else st_[1]
                            pts = [dict(p) for p in pts]
                            if k == "insert":
                                pts[0]["time"] = latest = latest + timedelta(seconds=1)
                            elif (k == "insert_multiple" and st_[3]) or k == "insert_bulk":
                                for p in pts:
                                    p["time"] = latest = latest + timedelta(seconds=1)
                            ooo = k == "insert_ooo" or (k == "insert_multiple" and not st_[3])
                            compact = st_[2] if k != "insert_bulk" else st_[3]
                            before = w.disk()
                            e0 = len(w.events)
                            w0 = len(w.written)
                            try:
                                if k in ("insert_multiple", "insert_bulk"):
                                    db.insert_multiple([gen.to_point(p) for p in pts], compact_key_prefixes=compact)
                                elif via_handle:
                                    db.measurement(pts[0]["measurement"]).insert(gen.to_point(pts[0]))  # (handles have no compact_key_prefixes option)
                                    acc.cls("insert_through_handle")
                                else:
                                    db.insert(gen.to_point(pts[0]), compact_key_prefixes=compact)
                            except Exception as e:
                                raise Violation("insert-raised", case, "[%s n=%d] step %d %s raised %r" % (name, case["n"], si, k, e))
                            after = w.disk()
                            ev = w.events[e0:]
                            acc.ev()
                            exp_pts = [dict(p, time=model.norm_time(p["time"])) for p in pts]
                            inserted.extend(exp_pts)
                            if not flush:
                                # rows may still sit in the write buffer: the byte-level oracle is applied to the whole file after close()
                                bad = [e for e in ev if e[0] in FORBIDDEN or e[0].startswith("open") or e[0].startswith("copy")]
                                if bad:
                                    raise Violation("reads-or-rewrites", case, "[%s n=%d flush_on_insert=False] step %d %s performed %s" % (name, case["n"], si, k, bad[:6]))
                                sigs.setdefault(si, {})[name] = ev
                                if name == "big" and case["n"] >= 100 and (early or ooo):
                                    info["nontrivial"] = True
                                    acc.cls("noflush_insert_after_early_read" if early else "noflush_insert_out_of_order_on_big")
                                early = False
                                continue
                            if not after.startswith(before):
                                raise Violation("not-append-only", case, "[%s n=%d] step %d %s: the previous file content (%d bytes) is not a prefix of the new content (%d bytes)" % (name, case["n"], si, k, len(before), len(after)))
                            bad = [e for e in ev if e[0] in FORBIDDEN or e[0].startswith("open") or e[0].startswith("copy")]
                            if bad:
                                raise Violation("reads-or-rewrites", case, "[%s n=%d] step %d %s performed %s" % (name, case["n"], si, k, bad[:6]))
                            # the appended bytes must be exactly the inserted rows (decoded by the independent reader, so the
                            # check does not pin the number formatting), and nothing else may have been written
                            tail = after[len(before):]
                            try:
                                dec = csvref.decode(tail, None, dkw)
                            except Exception as e:
                                raise Violation("appended-bytes", case, "[%s n=%d] step %d %s appended bytes that do not decode as rows: %r (%r)" % (name, case["n"], si, k, tail[:200], e))
                            if dec != exp_pts:
                                raise Violation("appended-bytes", case, "[%s n=%d] step %d %s appended rows %s, inserted points are %s" % (name, case["n"], si, k, dec[:3], exp_pts[:3]))
                            written = "".join(t for (_i, _r, t) in w.written[w0:])
                            if len(written.encode("utf-8")) != len(tail):
                                raise Violation("written-bytes", case, "[%s n=%d] step %d %s wrote %d bytes, the file grew by %d" % (name, case["n"], si, k, len(written.encode("utf-8")), len(tail)))
                            sigs.setdefault(si, {})[name] = ev
                            if name == "big" and case["n"] >= 100 and (early or ooo):
                                info["nontrivial"] = True
                                acc.cls("insert_after_early_read" if early else "insert_out_of_order_on_big")
                            acc.cls("insert_steps_%d" % len(ev))
                            early = False
                        elif k == "early_get":
                            db.get(TagQuery().i == "0")
                            early = case["n"] * 110 > 8192
                        elif k == "early_contains":
                            db.contains(TagQuery().i == "0")
                            early = case["n"] * 110 > 8192 and not (case["auto_index"])
                        elif k == "count":
                            db.count(TagQuery().pad == "p" * 40)
                            early = False
                        elif k == "len":
                            len(db)
                            early = False
                        elif k == "reindex":
                            db.reindex()
                            early = False
                        elif k == "reopen":
                            db.close()
                            db = TinyFlux(paths[name], auto_index=case["auto_index"], flush_on_insert=flush, **dkw)
                            early = False
                finally:
                    db.close()
                final = w.disk()
                ok = final.startswith(initial)
                if ok:
                    try:
                        ok = csvref.decode(final[len(initial):], None, dkw) == inserted
                    except Exception:
                        ok = False
                if not ok:
                    n_common = next((i for i, (x, y) in enumerate(zip(final, initial)) if x != y), min(len(final), len(initial)))
                    raise Violation("not-append-only", case, "[%s n=%d flush_on_insert=%s] after close() the file (%d bytes) is not the initial content (%d bytes) followed by exactly the %d inserted rows; common prefix with the initial content: %d bytes" % (name, case["n"], flush, len(final), len(initial), len(inserted), n_common))
                acc.ev()
            if w.blind_spots:
                raise core.HarnessError("I/O that bypassed the proxies: %r" % (w.blind_spots[:3],))
        for si, by in sigs.items():
            if by.get("big") != by.get("twin"):
                raise Violation("io-depends-on-size", case, "step %d %s: I/O calls on the %d-row database %s differ from the empty twin %s" % (si, case["steps"][si][0], case["n"], by.get("big"), by.get("twin")))
            acc.ev()
    finally:
        iolayer.uninstall()
        shutil.rmtree(d, ignore_errors=True)
    return info


def shards(tier):
    return [{"n": 300 if tier == "quick" else 3000, "nmax": 2000 if tier == "quick" else 50000} for _ in range(16)]


def run_shard(spec, ctx):
    acc = ctx.acc

    def check(case):
        info = run_case(case, ctx, acc)
        acc.cls("size_%s" % ("0" if case["n"] == 0 else "<100" if case["n"] < 100 else "<1000" if case["n"] < 1000 else ">=1000"))
        if info["nontrivial"]:
            acc.nt(case)
            acc.sample({"n": case["n"], "auto_index": case["auto_index"], "steps": [s[0] for s in case["steps"]]}, cap=2, every=7)

    v = core.hyp_search(check, cases(spec["nmax"]), ctx.seed, spec["n"])
    if v is not None:
        raise v


def replay(sub, case, ctx):
    run_case(case, ctx, ctx.acc)
